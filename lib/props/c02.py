from ..egflow import EgSpec
from .. import core
from .egcommon import *

FLOW = 'eg'


class C02(EgSpec):
    prop = 'C02'
    coq_targets = ['theories/props/C02.vo', 'theories/Dispatch.vo']
    props_file = 'theories/props/C02.v'
    trusted_base = EG_TB
    assumptions = ['completeness of the e-graph algorithm is not proved; a violation is reported only for pairs the proved-sound closure derives and the implementation denies',
                   'the closure is bounded (name pool = names of the history + 2, universe cap 600): it may fail to derive an implied equality, which is never held against the implementation']
    rule = ('random histories over LV by motif (symmetry: permuted copies of a leaf, redundancy: renamed/dropped slot, self-reference a = u(a), random terms with subterms; 1-5 unions) '
            'plus the corpus of minimised known-defect histories; every pair of handles is compared. non-trivial = symmetry/redundancy/self-reference motif or at least two unions')
    streams = [
        {'name': 'default', 'component': 'eg', 'config': 'default', 'quick': 240, 'thorough': 3500},
        {'name': 'checks', 'component': 'eg', 'config': 'checks', 'quick': 80, 'thorough': 1200},
        # the decidable premise `ss_ok` of the congruence theorems (C02_congruence_of_represented_nodes, ..._immediately_after_union)
        # and the invariants they use, evaluated by the model on explored histories (machine egc)
        dict(EGC_STREAM, quick=100, thorough=2000),
    ]

    def model_input(self, stream, case, impl_obs):
        if stream['name'] == 'invariant':
            return core.sx_show(['egc'] + core.sx_parse(case)[1:])
        return case

    def evaluate(self, stream, case, impl_obs, model_obs, ctx):
        if stream['name'] == 'invariant':
            bad = egc_verdict(model_obs, ['self-symmetries', 'covered', 'invb', 'handles-cover', 'stored-live'])
            if bad:
                return [('differs', 'congruence-premise', 'on this history the executable premise of the proved congruence theorems is false in the model: %s (%s)' % (bad, model_obs.strip()), {})]
            return []
        if model_obs is None:
            return [('note', 'checker-time-limit', 'the verified checker exceeded its per-case time limit on this history; not judged', {})]
        pc, pi, pm = core.sx_parse(case), core.sx_parse(impl_obs), core.sx_parse(model_obs)
        out = []
        e = eqm(pi)
        if e is None:
            return [('note', 'impl-error', 'the history did not complete (judged by C08)', '')]
        n, bits = e
        if not isinstance(pm, list) or pm[0] != 'gcc' or pm[1] != n:
            return [('differs', 'closure-output', 'the closure did not produce a matrix for this history: ' + str(model_obs)[:200], '')]
        g = pm[2][1:]
        terms, ops, hs = parts(pc)
        for x in range(n):
            for y in range(n):
                if g[x * n + y] == '1' and bits[x * n + y] == '0':
                    out.append(('violation', 'incomplete',
                                'implied equality not reported: %s = %s follows from {%s} (derived by the proved-sound closure) but eq() answers false'
                                % (show_term(terms[hs[x]]), show_term(terms[hs[y]]), '; '.join(describe_history(pc))),
                                {'handles': [x, y]}))
                    return out
        return out

    def nontrivial(self, stream, case, impl_obs):
        return hist_nontrivial(core.sx_parse(case))

    def distribution(self, stream, cases, impl):
        d = {}
        for c in cases:
            pc = core.sx_parse(c)
            m = 'motif:' + (pc[4] if len(pc) > 4 else '?')
            d[m] = d.get(m, 0) + 1
        return d

SPEC = C02()
