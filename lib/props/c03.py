from ..egflow import EgSpec
from .. import core
from .egcommon import *
import re

FLOW = 'eg'

COND = {9, 14, 15, 20, 22, 23}
SUBST = {11}
REBIND = {12, 18}


def rules_of(case):
    m = re.search(r'\(rules(.*?)\) \(iters', case)
    return [int(x) for x in re.findall(r'\(rule (\d+) ', m.group(1))] if m else []


class C03(EgSpec):
    prop = 'C03'
    coq_targets = ['theories/props/C03.vo', 'theories/Dispatch.vo']
    props_file = 'theories/props/C03.v'
    trusted_base = EG_TB + [
        'Sem/Fp.v: the model F_p (interp_fp), the pattern semantics peval and the rule pool FPPOOL are specifications written for this purpose; that the pool texts handed to Rewrite::new/new_if denote those patterns is proved through the model of the crate\'s parser (Parse/Parser.v), itself tied to parse.rs by the C18 correspondence',
        'harness/src/eg3.rs: export of the final e-graph (every live class: slots and, per e-node of enodes_applied, the term obtained by replacing child invocations with extracted representatives; every handle: inserted term and the term extracted for its current invocation)',
        'the evaluator that judges the export is the extracted Sem/Algebra.v eval in interp_fp p, p = 5, 3, 2, under 4 environments per case derived from the case seed']
    assumptions = ['that e-matching, pattern_subst, union and rebuild only derive consequences of rule instances is not proved; it is decided per run by evaluating every class member and every handle',
                   'environments are sampled (4 per case and modulus); a violation that shows only under other slot values is missed in that run']
    rule = ('random arithmetic terms (var, num, add, mul, sum, let; nested binders, several free slots), F_p-valid unions, random subsets of the 24-rule pool incl. conditional, substitution and re-binding rules, 1-3 iterations under a node budget; '
            'every class member and every handle evaluated for p = 5, 3, 2; slots outside the class\'s slot set must not influence any member. non-trivial = at least one iteration changed the e-graph')
    streams = [
        {'name': 'default', 'component': 'eg3', 'config': 'default', 'model_in_file': 'export.txt', 'quick': 300, 'thorough': 8000},
        {'name': 'checks', 'component': 'eg3', 'config': 'checks', 'model_in_file': 'export.txt', 'quick': 80, 'thorough': 1500},
    ]

    def evaluate(self, stream, case, impl_obs, model_obs, ctx):
        out = []
        m = (model_obs or '').strip()
        if m in ('(c03 ok)', '(c03 skipped)'):
            return out
        if '(bad ' in m:
            what = 'class member' if '(bad class' in m else 'inserted term'
            out.append(('violation', 'bad-' + what, 'after rewriting with rules valid in F_p a %s evaluates differently from its class / depends on a slot the class dropped: %s' % (what, m[:300]), {'rules': rules_of(case)}))
        elif 'unverified-rule' in m:
            out.append(('differs', 'unverified-rule', 'a rule text used by the harness is not in the proved pool FPPOOL_text: %s' % m[:200], {}))
        else:
            out.append(('differs', 'checker-output', 'unexpected output of the verified evaluator: %s' % m[:200], {}))
        return out

    def nontrivial(self, stream, case, impl_obs):
        return '(it true' in impl_obs

    def shrinkable(self):
        return True

    def distribution(self, stream, cases, impl):
        d = {}
        for c, o in zip(cases, impl):
            rs = set(rules_of(c))
            for k, S in (('conditional-rule', COND), ('substitution-rule', SUBST), ('rebinding-rule', REBIND)):
                if rs & S:
                    d[k] = d.get(k, 0) + 1
            if '(err ' in o:
                d['impl-panic'] = d.get('impl-panic', 0) + 1
            if '(stopped)' in o:
                d['node-budget'] = d.get('node-budget', 0) + 1
            mm = re.search(r'\(redundant (\d+)\)', o)
            if mm and int(mm.group(1)) > 0:
                d['redundant-member'] = d.get('redundant-member', 0) + 1
        return d

SPEC = C03()
