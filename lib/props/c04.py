from ..egflow import EgSpec
from .. import core
from .egcommon import *
import re

FLOW = 'eg'

OK_POST = re.compile(r'\(post \(lhs true\) \(rhs true\) \(eq true\) \(nodes (\d+) \1\) \(eqh true\)\)')
PRE = re.compile(r'\(pre \(red (true|false)\) \(lhs (true|false)\)\)')


def motif_of(case):
    m = re.search(r'\) (plant[a-z+\-]*) \(rules', case)
    return m.group(1) if m else ''


class C04(EgSpec):
    prop = 'C04'
    coq_targets = ['theories/props/C04.vo', 'theories/Dispatch.vo']
    props_file = 'theories/props/C04.v'
    trusted_base = EG_TB + [
        'EGraph/Rewrite.v + MatchMachine.v: hand-written model of ematch_all / pattern_subst / apply_rewrites; it replays the match order the implementation reports ((sched ...)), which follows hash-map iteration order',
        'harness/src/eg4.rs: the planting generator (rule pool inside the scope of C04, substitution, variants, contexts) and the read-only post-check (lookup_rec_expr, eq, node count around add_expr of the right instance)']
    assumptions = ['completeness of the matcher is not proved for the model; it is decided per run on planted instances',
                   'scope as in the property: pool rules bind each bound slot name once and do not use it free; cases in which some class has a redundant slot before the rules are applied are skipped and counted']
    rule = ('planted instances: rule from a 39-rule pool (repeated variables, free and bound slots, nested patterns), injective slot renaming, small terms for the variables, instance present only through variants unioned with its subterms '
            '(incl. permuted leaves = symmetric classes as children), optionally inside a context; ONE apply_rewrites; the right instance must be looked up without insertion, be eq to the left instance, and its insertion must add no node. '
            'non-trivial = instance present only through a variant, or in a context, or with a symmetric class')
    streams = [
        {'name': 'default', 'component': 'eg4', 'config': 'default', 'quick': 400, 'thorough': 10000},
        {'name': 'checks', 'component': 'eg4', 'config': 'checks', 'quick': 100, 'thorough': 2000},
    ]

    def evaluate(self, stream, case, impl_obs, model_obs, ctx):
        out = []
        pre = PRE.search(impl_obs)
        if not pre:
            out.append(('violation', 'error', 'applying the rule to the planted instance failed: %s' % impl_obs[:200], {}))
            return out
        if pre.group(1) == 'true':
            out.append(('note', 'skipped-redundant-class', 'outside the scope (a class has a redundant slot)', {}))
        elif pre.group(2) == 'false':
            out.append(('note', 'instance-not-represented', 'the planted instance is not represented before the rules run (generator)', {}))
        elif not OK_POST.search(impl_obs):
            post = impl_obs[impl_obs.find('(post'):] if '(post' in impl_obs else impl_obs[-160:]
            out.append(('violation', 'instance-did-not-fire', 'a represented instance of the left pattern did not fire (%s): after one apply_rewrites %s' % (motif_of(case), post), {}))
            return out
        if model_obs is not None and model_obs.strip() != impl_obs.strip():
            out.append(('differs', 'model-eg4', 'observations of the planted-instance run differ from the rewrite model; the instance fired on the implementation', {'model': model_obs[:500]}))
        return out

    def nontrivial(self, stream, case, impl_obs):
        m = motif_of(case)
        return ('variant' in m or 'sub' in m or 'context' in m or 'sym' in m or 'interference' in m) and '(pre (red false) (lhs true))' in impl_obs

    def shrinkable(self):
        return False

    def distribution(self, stream, cases, impl):
        d = {}
        for c, o in zip(cases, impl):
            pre = PRE.search(o)
            if pre and pre.group(1) == 'true':
                d['skipped:redundant-class'] = d.get('skipped:redundant-class', 0) + 1
            elif pre and pre.group(2) == 'true':
                d['checked'] = d.get('checked', 0) + 1
                m = motif_of(c)
                for k in ('variant', 'context', 'sym'):
                    if k in m:
                        d['planted:' + k] = d.get('planted:' + k, 0) + 1
        return d

SPEC = C04()
