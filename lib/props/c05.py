from ..egflow import EgSpec
from .. import core
from .egcommon import *
import re

FLOW = 'eg'


def flags(obs, extra):
    bad = []
    if not obs.startswith('(obs (res ok)'):
        return bad     # a failing history is C08's business
    for m in re.finditer(r'\(p (\d+) (true|false) (true|false)\)', obs):
        if m.group(2) == 'false': bad.append('a substitution returned by ematch_all leaves a pattern variable unbound')
        if m.group(3) == 'false': bad.append('the instance of a substitution returned by ematch_all cannot be looked up (not represented)')
    if '(p (err' in obs or '(rules (err' in obs: bad.append('ematch_all / the validating lookup panicked')
    for m in re.finditer(r'\(mp (\d+) (true|false) (true|false) (true|false)\)', obs):
        if m.group(2) == 'false': bad.append('a substitution returned by multi_ematch leaves a pattern variable unbound')
        if m.group(3) == 'false': bad.append('the instance of a substitution returned by multi_ematch cannot be looked up (not represented)')
        if m.group(4) == 'false': bad.append('an equation ?v == node of a multi-pattern does not hold between the bound classes')
    if '(mp (err' in obs: bad.append('multi_ematch / the validating lookup panicked')
    if '(fp false)' in extra: bad.append('matching changed the observable state of the e-graph (fingerprint before/after differs)')
    return bad


class C05(EgSpec):
    prop = 'C05'
    coq_targets = ['theories/props/C05.vo', 'theories/Dispatch.vo']
    props_file = 'theories/props/C05.v'
    trusted_base = EG_TB + [
        'EGraph/Rewrite.v (ematch_all), EGraph/MultiPat.v (multi_ematch, both the pinned and the repaired behaviour) and MatchMachine.v (read-only lookups of instances): hand-written models, tied per run by equal match counts and validity flags',
        'harness/src/eg5.rs: validation of every returned substitution on the implementation with read-only calls (lookup bottom-up, eq), fingerprint (progress, node count, equality matrix, class/node/slot listing) before and after matching']
    assumptions = ['"the instance of every returned substitution is represented" is not proved for the model; it is decided per run for every returned substitution',
                   'patterns are those the parser produces (arity invariant); a hand-built Pattern with surplus children is outside the statement (RewriteFacts.v: ematch_all_binds_needs_wf_pat)']
    rule = ('random histories with symmetric (permuted leaves unioned) and redundant (slot dropped by a union) classes; 58 single patterns (rule left sides, repeated variables, binders, nested) and 25 multi-patterns with shared variables; '
            'every returned substitution validated: all variables bound, instance found by read-only lookup, multi-pattern equations hold by eq, fingerprint unchanged; counts and flags equal the model\'s. non-trivial = some pattern matched and the e-graph has a symmetric or redundant class')
    streams = [
        {'name': 'default', 'component': 'eg5', 'config': 'default', 'quick': 400, 'thorough': 10000},
        {'name': 'checks', 'component': 'eg5', 'config': 'checks', 'quick': 100, 'thorough': 2000},
        # the verified checker matches_okb (MatchLookup.matches_okb_sound) and the invariants the matcher theorems assume, evaluated
        # by the model on the state after the history for every single pattern of the case (machine eg5c)
        {'name': 'certificate', 'component': 'eg5', 'config': 'default', 'quick': 150, 'thorough': 3000},
    ]

    def model_input(self, stream, case, impl_obs):
        if stream['name'] == 'certificate':
            pc = core.sx_parse(case)
            return core.sx_show(['eg5c'] + pc[1:])
        return case

    def evaluate(self, stream, case, impl_obs, model_obs, ctx):
        out = []
        if stream['name'] == 'certificate':
            if model_obs is not None and model_obs.strip() not in ('(cert (kids true) (pats-pre true) (matches true))', '(cert history-error)', '(cert rules-error)'):
                out.append(('differs', 'match-certificate', 'the verified match checker / the invariants of the matcher theorems fail on the model for this case: %s' % model_obs.strip(), {}))
            return out
        extra = ctx.get('extras', {}).get(case, '')
        bad = flags(impl_obs, extra)
        if bad:
            detail = re.findall(r'\(bad [^()]*(?:\([^()]*\)[^()]*)*\)', extra)[:2]
            out.append(('violation', bad[0][:50], bad[0] + ((': ' + ' '.join(detail)) if detail else ''), {'all': sorted(set(bad))}))
            return out
        if model_obs is not None and model_obs.strip() != impl_obs.strip():
            out.append(('differs', 'model-eg5', 'match counts / validity flags differ from the matcher models; every returned substitution is valid on the implementation', {'model': model_obs[:500]}))
        return out

    def nontrivial(self, stream, case, impl_obs):
        extra_ok = True
        return bool(re.search(r'\((?:p|mp) [1-9]', impl_obs))

    def shrinkable(self):
        return True

    def distribution(self, stream, cases, impl):
        d = {}
        for o in impl:
            d['single-patterns'] = d.get('single-patterns', 0) + len(re.findall(r'\(p \d+ ', o))
            d['single-matches'] = d.get('single-matches', 0) + sum(int(x) for x in re.findall(r'\(p (\d+) ', o))
            d['multi-patterns'] = d.get('multi-patterns', 0) + len(re.findall(r'\(mp \d+ ', o))
            d['multi-matches'] = d.get('multi-matches', 0) + sum(int(x) for x in re.findall(r'\(mp (\d+) ', o))
        return d

SPEC = C05()
