from ..egflow import EgSpec
from .. import core
from .egcommon import *

FLOW = 'eg'


class C06(EgSpec):
    prop = 'C06'
    coq_targets = ['theories/props/C06.vo', 'theories/Dispatch.vo']
    props_file = 'theories/props/C06.v'
    trusted_base = EG_TB + ['Extract/Extractor.v: hand-written Gallina mirror of src/extract/mod.rs (Extractor::new worklist, class_nf, extract) on top of EGraph/Model.v; the abstract theorem (Extract/Knuth.v) is about the worklist scheme, its instantiation by Extractor.v is not proved',
                            'the three cost functions are implemented twice (harness/src/egt.rs, Extractor.v); u64 saturation modelled as min(.., 2^64-1)']
    assumptions = ['membership of the extracted term (lookup gives an equal invocation), recomputed cost and the free-slot condition are checked on the implementation per run, not proved',
                   'Extractor::get_best_cost(handle) panics on a non-canonical (stale) handle because it cannot canonicalise without the e-graph; the harness canonicalises first (API precondition, noted in DESIGN.md)']
    rule = ('random/motif histories with at least one real union (cycles a = u(a), redundant slots, symmetric classes, unions of compound terms with parents on top); for AstSize, depth-weighted size and '
            'per-operator weighted size: Extractor::new, then for every handle best cost (compared with the extractor model) and on the implementation: cost_rec(extracted) = best cost, '
            'lookup_rec_expr(extracted) equal to the handle, free slots of the result among the handle slots or fresh. non-trivial = some handle has a best cost below its own term size, or the history has a self-reference/redundancy motif')
    streams = [
        {'name': 'default', 'component': 'egt', 'config': 'default', 'quick': 300, 'thorough': 8000},
        {'name': 'checks', 'component': 'egt', 'config': 'checks', 'quick': 100, 'thorough': 2000},
        # certificate: on the explored states the model's extractor table passes the verified checkers table_okb / extract_okb
        # (Extract/ExtractorFacts.v: table_okb_sound needs no hypothesis on the state), so the table the implementation is compared
        # with IS the minimum derivation cost of every class, and extracted terms cost exactly the table value
        {'name': 'certificate', 'component': 'egt', 'config': 'default', 'quick': 120, 'thorough': 3000},
    ]

    def model_input(self, stream, case, impl_obs):
        if stream['name'] == 'certificate':
            pc = core.sx_parse(case)
            return core.sx_show(['egtc'] + pc[1:])
        return case

    def evaluate(self, stream, case, impl_obs, model_obs, ctx):
        pc, pi = core.sx_parse(case), core.sx_parse(impl_obs)
        terms, ops, hs = parts(pc)
        out = []
        if stream['name'] == 'certificate':
            ok = '(cert (usages true) (cf 0 true true) (cf 1 true true) (cf 2 true true) (cf 2 true true))'
            if model_obs is not None and model_obs.strip() not in (ok, '(cert history-error)'):
                out.append(('differs', 'certificate', 'the verified certificate checkers reject the model extractor\'s table on this state (the minimum-cost theorem does not apply to it): %s' % model_obs.strip()[:200], {}))
            return out
        res = field(pi, 'res')
        if res is not None and res[1] == 'err':
            return [('note', 'impl-error', 'history failed (C08)', {})]
        for cf in [e for e in pi[1:] if isinstance(e, list) and e and e[0] == 'cf']:
            k = cf[1]
            body = cf[2:]
            if len(body) == 1 and isinstance(body[0], list) and body[0] and body[0][0] == 'err':
                out.append(('violation', 'extract-panic', 'extraction under cost function %d panicked at %s; asserted: {%s}' % (k, core.sx_show(body[0][-1]), '; '.join(describe_history(pc))), {}))
                return out
            for hidx, h in enumerate(body):
                if not (isinstance(h, list) and h and h[0] == 'h'):
                    continue
                cost, a, b, c = h[1], h[2], h[3], h[4]
                t = show_term(terms[hs[hidx]]) if hidx < len(hs) else '?'
                if a != 'true':
                    out.append(('violation', 'cost-mismatch', 'cost function %d: the recomputed cost of the term extracted for %s differs from the reported best cost %s' % (k, t, cost), {})); return out
                if b != 'true':
                    out.append(('violation', 'not-member', 'cost function %d: the term extracted for %s is not represented in that invocation (lookup fails or gives an unequal invocation)' % (k, t), {})); return out
                if len(h) > 5 and h[5] == 'false':
                    out.append(('violation', 'free-function', 'the free functions extract::<AstSize> / ast_size_extract return for %s a term that is not represented in the queried invocation, or not of the best cost %s, or with a foreign free slot' % (t, cost), {})); return out
                if c != 'true':
                    out.append(('violation', 'foreign-slot', 'cost function %d: the term extracted for %s has a free slot that is neither an argument of the query nor a brand-new slot generated by this extraction' % (k, t), {})); return out
        def core_obs(p):    # the observation without the implementation-only sixth field of the h records (free-function check)
            return core.sx_show([[x[:5] if isinstance(x, list) and x and x[0] == 'h' else x for x in e] if isinstance(e, list) and e and e[0] == 'cf' else e for e in p]) if isinstance(p, list) else core.sx_show(p)
        if model_obs is not None and core_obs(pi) != core_obs(core.sx_parse(model_obs)):
            # best costs are the compared observable; decide whether the implementation is above or below the model's minimum
            pm = core.sx_parse(model_obs)
            why = 'best costs differ from the extractor model'
            for ci, cm in zip([e for e in pi[1:] if isinstance(e, list) and e[0] == 'cf'], [e for e in pm[1:] if isinstance(e, list) and e[0] == 'cf']):
                for hi, hm in zip(ci[2:], cm[2:]):
                    if isinstance(hi, list) and isinstance(hm, list) and hi[0] == 'h' and hm[0] == 'h' and hi[1] != hm[1]:
                        if int(hi[1]) > int(hm[1]):
                            out.append(('violation', 'not-minimal', 'cost function %d: extraction reports best cost %s where a represented term of cost %s exists (extractor model)' % (ci[1], hi[1], hm[1]), {'model': model_obs[:300]}))
                            return out
            out.append(('differs', 'model-costs', why + '; membership, recomputed cost and free slots hold on the implementation', {'model': model_obs[:300]}))
        return out

    def nontrivial(self, stream, case, impl_obs):
        pc = core.sx_parse(case)
        return (pc[4] if len(pc) > 4 else '') in ('self-reference', 'redundancy', 'symmetry') or sum(1 for o in pc[3][1:] if o[0] == 'union') >= 2

    def distribution(self, stream, cases, impl):
        d = {}
        for c in cases:
            pc = core.sx_parse(c)
            m = 'motif:' + (pc[4] if len(pc) > 4 else '?')
            d[m] = d.get(m, 0) + 1
        return d

SPEC = C06()
