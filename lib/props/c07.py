from ..egflow import EgSpec
from .. import core
from .egcommon import *

FLOW = 'eg'


def chk_input(case, impl_obs):
    pc, pi = core.sx_parse(case), core.sx_parse(impl_obs)
    ex = field(pi, 'expl')
    if ex is None:
        return None
    return core.sx_show(['chk', pc[2], pc[3], ex])


class C07(EgSpec):
    prop = 'C07'
    coq_targets = ['theories/props/C07.vo', 'theories/Dispatch.vo']
    props_file = 'theories/props/C07.v'
    trusted_base = EG_TB + ['the exporter of proof DAGs in harness/src/egx.rs (ProvenEqRaw::equ/proof, get_syn_expr): a wrong export can only make the verified checker reject']
    assumptions = ['that explain_equivalence returns for every equal pair is not proved; it is established per explored history by running it (at most 40 pairs per history)',
                   'user-facing handles are obtained with add_syn_expr in the explanations build, so that every Explicit leaf is literally an asserted equation']
    rule = ('random histories of justified unions over LV (motifs: symmetry incl. 3- and 4-cycles, redundancy, self-reference, congruence under binders, random), explanations and checks+explanations builds; '
            'for every pair of different inserted terms that compares equal (up to 40 per history) explain_equivalence is called and the exported proof DAG is checked node by node by the Coq-verified checker. '
            'non-trivial = history with a symmetry/redundancy/self-reference motif or >= 2 unions and at least one exported proof')
    streams = [
        {'name': 'expl', 'component': 'egx', 'config': 'explanations', 'quick': 160, 'thorough': 4000},
        {'name': 'explchecks', 'component': 'egx', 'config': 'checks+explanations', 'quick': 60, 'thorough': 1500},
    ]

    def model_input(self, stream, case, impl_obs):
        return chk_input(case, impl_obs)

    def evaluate(self, stream, case, impl_obs, model_obs, ctx):
        pc, pi = core.sx_parse(case), core.sx_parse(impl_obs)
        terms, ops, hs = parts(pc)
        res = field(pi, 'res')
        if res is not None and res[1] == 'err':
            loc = res[4]
            return [('violation', 'history-panic ' + loc, 'a history of justified unions panicked at %s (%s) in the %s build: {%s}' % (loc, res[3], stream['config'], '; '.join(describe_history(pc))), {'location': loc})]
        e = field(pi, 'eqm')
        if e is not None and e[1] == 'err':
            return [('violation', 'eq-panic ' + e[3], 'EGraph::eq panicked at %s' % e[3], {})]
        out = []
        ex = field(pi, 'expl')
        if ex is None:
            return out
        for p in ex[1:]:
            if p[2][0] == 'err':
                out.append(('violation', 'explain-panic ' + p[2][2], 'explain_equivalence(%s, %s) panicked at %s although the terms compare equal; asserted: {%s}'
                            % (show_term(terms[hs[p[0]]]), show_term(terms[hs[p[1]]]), p[2][2], '; '.join(describe_history(pc))), {'handles': [p[0], p[1]]}))
                break
        pm = core.sx_parse(model_obs) if model_obs else None
        if isinstance(pm, list) and pm[0] == 'chk':
            for r in pm[1:]:
                if isinstance(r, list) and r[2] != 'ok' and r[2] != 'no-proof':
                    out.append(('violation', 'proof-rejected', 'the explanation of %s = %s is not a valid proof: %s (asserted: {%s})'
                                % (show_term(terms[hs[r[0]]]), show_term(terms[hs[r[1]]]), core.sx_show(r[2]), '; '.join(describe_history(pc))), {'handles': [r[0], r[1]]}))
                    break
        elif model_obs is not None:
            out.append(('differs', 'checker-output', 'the checker produced no verdict: ' + str(model_obs)[:200], {}))
        return out

    def nontrivial(self, stream, case, impl_obs):
        return hist_nontrivial(core.sx_parse(case)) and '(proof' in impl_obs

    def classify_known(self, stream, case, impl_obs, reason, known):
        for k in known.get('findings', []):
            # the listed findings are panics WHILE A JUSTIFIED UNION IS PROCESSED (history phase); a panic of explain_equivalence at the
            # same source line, a rejected proof or any other location is a different violation and is reported
            if k['property'] == 'C07' and k['match'] in reason and reason.startswith('a history of justified unions panicked'):
                return k
        return None

    def distribution(self, stream, cases, impl):
        d = {}
        for c, i in zip(cases, impl):
            pc = core.sx_parse(c)
            m = 'motif:' + (pc[4] if len(pc) > 4 else '?')
            d[m] = d.get(m, 0) + 1
            d['proofs_exported'] = d.get('proofs_exported', 0) + i.count('(proof')
        return d

SPEC = C07()
