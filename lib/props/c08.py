from ..egflow import EgSpec
from .. import core
from .egcommon import *

FLOW = 'eg'


def steps_of(pi):
    st = field(pi, 'steps') if isinstance(pi, list) else None
    return st[1:] if st else []


class C08(EgSpec):
    prop = 'C08'
    coq_targets = ['theories/props/C08.vo', 'theories/Dispatch.vo']
    props_file = 'theories/props/C08.v'
    trusted_base = EG_TB + ['EGraph/Model.v: hand-written Gallina mirror of src/egraph/{mod,find,add,union,rebuild}.rs and the data part of src/explain/wrapper/*.rs (default build); every Rust panic site is an error value of the model',
                            'consistency is judged on the implementation directly: EGraph::check(), re-lookup of every listed e-node, slot coverage, one e-node in one live class, idempotent canonicalisation']
    assumptions = ['panic-freedom of the model for all histories is not proved; the model never returned an error value on any explored history, and the implementation is compared with it after every single operation']
    rule = ('random histories over LV by motif plus the corpus of known-defect histories, in the default and the checks build; after EVERY operation: progress, equality matrix, slots (compared with the model) '
            'and check() + consistency predicates (implementation). non-trivial = symmetry/redundancy/self-reference motif or >= 2 unions')
    streams = [
        {'name': 'default', 'component': 'egs', 'config': 'default', 'quick': 300, 'thorough': 8000},
        {'name': 'checks', 'component': 'egs', 'config': 'checks', 'quick': 150, 'thorough': 3000},
        # the same per-operation checks on e-graphs that carry an analysis (MinSize / Depth): pending entries of kind OnlyAnalysis exist only there
        {'name': 'analysis', 'component': 'egs', 'config': 'default', 'gen_extra': ['an'], 'quick': 150, 'thorough': 4000},
        {'name': 'analysis_checks', 'component': 'egs', 'config': 'checks', 'gen_extra': ['an'], 'quick': 80, 'thorough': 1500},
        # NOTHING observed between the operations (observation canonicalises and thereby compresses union-find paths): at the end every handle is
        # first canonicalised on its own (alive, idempotent), then the usual checks; the first-asked equality matrix must equal the observed run's
        {'name': 'lazy', 'component': 'egs', 'config': 'default', 'gen_extra': ['lazy'], 'quick': 250, 'thorough': 6000},
        {'name': 'lazy_checks', 'component': 'egs', 'config': 'checks', 'gen_extra': ['lazy'], 'quick': 80, 'thorough': 1500},
        # rewriting: no panic in any iteration, check() passes after every iteration (extra.txt), observations = rewrite model
        {'name': 'rewrites', 'component': 'egr', 'config': 'default', 'quick': 150, 'thorough': 4000},
        {'name': 'rewrites_checks', 'component': 'egr', 'config': 'checks', 'quick': 80, 'thorough': 1500},
        # rewriting over the arithmetic fragment with conditional / substitution / re-binding rules, then extraction of every class
        {'name': 'arith_checks', 'component': 'eg3', 'config': 'checks', 'model_in_file': 'export.txt', 'quick': 60, 'thorough': 1500},
    ]

    def model_input(self, stream, case, impl_obs):
        return case

    def evaluate(self, stream, case, impl_obs, model_obs, ctx):
        pc, pi = core.sx_parse(case), core.sx_parse(impl_obs)
        out = []
        if stream['component'] in ('egr', 'eg3'):
            import re
            misuse = any(int(x) >= 100 for x in re.findall(r'\(rule (\d+) ', case))   # deliberately ill-formed rules: not "well-formed inputs"
            extra = ctx.get('extras', {}).get(case, '')
            if not misuse and '(err ' in impl_obs:
                where = re.findall(r'\((?:iteration|observe|rules|history|export|run) [^()]*\)', extra)
                out.append(('violation', 'rewrite-panic', 'rewriting / extraction panicked (%s build): %s %s' % (stream['config'], re.findall(r'\(err [^()]*\)', impl_obs)[:1], where[:1]), {}))
                return out
            bad = re.findall(r'\(check \d+ [^()]*\)', extra)
            if not misuse and bad:
                out.append(('violation', 'rewrite-inconsistent', 'after a rewriting iteration EGraph::check() fails (%s build): %s' % (stream['config'], bad[0]), {}))
                return out
            if stream['component'] == 'egr' and model_obs is not None and model_obs.strip() != impl_obs.strip():
                out.append(('differs', 'model-rewrites', 'apply_rewrites observations differ from EGraph/Rewrite.v; no panic and no failed check() on the implementation', {'model': model_obs[:400]}))
            return out
        steps = steps_of(pi)
        for k, st in enumerate(steps):
            if isinstance(st, list) and st and st[0] == 'err':
                out.append(('violation', 'panic ' + core.sx_show(st[-1]), 'operation %d of the history panicked at %s (%s build); asserted so far: {%s}'
                            % (k, core.sx_show(st[-1]), stream['config'], '; '.join(describe_history(pc))), {'step': k}))
                return out
        cons = field(pi, 'cons')
        for k, c in enumerate(cons[1:] if cons else []):
            if c != 'ok':
                when = 'at the end of the history (nothing was observed between its operations)' if is_lazy_case(pc) else 'after operation %d' % k
                out.append(('violation', 'inconsistent ' + core.sx_show(c)[:60], '%s the e-graph is inconsistent: %s (%s build); asserted: {%s}'
                            % (when, core.sx_show(c), stream['config'], '; '.join(describe_history(pc))), {'step': k}))
                return out
        if is_lazy_case(pc):
            pm = core.sx_parse(model_obs) if model_obs is not None else None
            if pm is not None and isinstance(pm, list) and len(pm) > 1 and steps and core.sx_show(steps[-1]) != core.sx_show(pm[-1]):
                out.append(('differs', 'model-final', 'the observation at the end of the unobserved history differs from the e-graph model\'s last step; no panic and no inconsistency on the implementation', {'model': core.sx_show(pm[-1])[:400]}))
            return out
        if model_obs is not None and core.sx_show(field(pi, 'steps')) != model_obs.strip():
            out.append(('differs', 'model-steps', 'the per-operation observations (progress, equalities, slots, node count) differ from the e-graph model; no panic and no inconsistency on the implementation', {'model': model_obs[:400]}))
        return out

    def nontrivial(self, stream, case, impl_obs):
        if stream['component'] in ('egr', 'eg3'):
            return '(it true' in impl_obs
        return hist_nontrivial(core.sx_parse(case))

    def distribution(self, stream, cases, impl):
        d = {}
        for c in cases:
            pc = core.sx_parse(c)
            m = 'motif:' + (pc[4] if len(pc) > 4 and isinstance(pc[4], str) else '?')
            d[m] = d.get(m, 0) + 1
            d['operations'] = d.get('operations', 0) + len(pc[3]) - 1
        return d

SPEC = C08()
