from ..egflow import EgSpec
from .. import core
from .egcommon import *

FLOW = 'eg'


def predicate(pc, pi):
    terms, ops, hs = parts(pc)
    probes = pc[5][1:]
    res = field(pi, 'res')
    if res is None or res[1] == 'err':
        return None   # history failure is C08's business
    obs = [o for o in pi[2:]]
    for p, o in zip(probes, obs):
        kind = p[1] if isinstance(p[1], str) else p[1][0]
        tt = show_term(p[3])
        if isinstance(o, list) and o and o[0] == 'err':
            return 'looking up / inserting %s panicked at %s' % (tt, core.sx_show(o[-1]))
        lk, pure, dcls, dnodes, sl_add, eq_add_orig = o[1], o[2], o[3], o[4], o[5], o[6]
        raw = o[7] if len(o) > 7 else None
        if raw is not None and raw[1] != len(sl_add):
            return 'inserting %s returns an invocation with %d slot arguments; the term has %d non-redundant free slots' % (tt, raw[1], len(sl_add))
        if raw is not None and isinstance(lk, list) and raw[2] != 'na' and raw[2] != len(lk[1]):
            return 'lookup of %s returns an invocation with %d slot arguments; the class has %d slots' % (tt, raw[2], len(lk[1]))
        if pure != 'true':
            return 'lookup_rec_expr(%s) modified the e-graph' % tt
        found = isinstance(lk, list)
        if found and (dcls != 0 or dnodes != 0):
            return 'lookup finds %s but inserting it creates %d class(es), %d node(s)' % (tt, dcls, dnodes)
        if not found and dcls == 0:
            return 'lookup does not find %s although inserting it creates no class' % tt
        if found and lk[2] != 'true':
            return 'lookup and insertion of %s return different invocations' % tt
        if kind in ('literal', 'alpha', 'via-union'):
            if not found:
                return 'the %s copy %s of an inserted term is not found by lookup' % (kind, tt)
            if eq_add_orig != 'true' or lk[3] != 'true':
                return 'inserting the %s copy %s does not give an invocation equal to the original' % (kind, tt)
        if kind == 'renamed':
            off = p[1][1]
            if dcls != 0:
                return 'inserting %s, a free-slot renaming of an inserted term, creates a class' % tt
    return None


class C09(EgSpec):
    prop = 'C09'
    coq_targets = ['theories/props/C09.vo', 'theories/Dispatch.vo']
    props_file = 'theories/props/C09.v'
    trusted_base = EG_TB + ['EGraph/Model.v and EGraph/Model9.v (lookup_rec_expr) as oracle of the correspondence']
    assumptions = ['that a term equal to a represented one through unions of subterms is found (coset independence of the shape) is not proved for the model; it is checked per run',
                   'lookup is a function State -> Result in the model, so "lookup never modifies the e-graph" holds there by construction; on the implementation it is checked through progress() and the node count']
    rule = ('random histories by motif; then 3-7 probe terms each: a literal copy, an alpha-renamed copy, an injectively renamed copy, a copy with a subterm replaced through an earlier union, a fresh parent u(t), a random term; '
            'each probe is looked up (lookup_rec_expr) and then inserted. non-trivial = the history has a union and the probes include an alpha/renamed/via-union copy')
    streams = [
        {'name': 'default', 'component': 'eg9', 'config': 'default', 'quick': 500, 'thorough': 12000},
        {'name': 'checks', 'component': 'eg9', 'config': 'checks', 'quick': 150, 'thorough': 3000},
        # the same probes on e-graphs that carry an analysis (MinSize / Depth): pending entries of kind OnlyAnalysis exist only there;
        # half of the histories plant a parent that uses both classes of a later union of different-sized classes
        {'name': 'analysis', 'component': 'eg9', 'config': 'default', 'gen_extra': ['an'], 'quick': 300, 'thorough': 6000},
        # the executable premise of C09_checked_reinsertion_is_identity (every handle still represents its term: handles_repb) evaluated
        # by the model on explored histories (machine egc)
        dict(EGC_STREAM, quick=100, thorough=2000),
    ]

    def model_input(self, stream, case, impl_obs):
        if stream['name'] == 'invariant':
            return core.sx_show(['egc'] + core.sx_parse(case)[1:])
        return case

    def evaluate(self, stream, case, impl_obs, model_obs, ctx):
        if stream['name'] == 'invariant':
            bad = egc_verdict(model_obs, ['handles-rep', 'invb', 'handles-cover', 'self-symmetries'])
            if bad:
                return [('differs', 'reinsertion-premise', 'on this history the executable premise of the proved re-insertion theorem is false in the model: %s (%s)' % (bad, model_obs.strip()), {})]
            return []
        pc, pi = core.sx_parse(case), core.sx_parse(impl_obs)
        r = predicate(pc, pi)
        if r:
            return [('violation', r.split('(')[0][:50], r + '; asserted: {%s}' % '; '.join(describe_history(pc)), {})]
        if model_obs is not None and impl_obs.strip() != model_obs.strip():
            res = field(pi, 'res')
            if res is not None and res[1] == 'err':
                return [('note', 'impl-error', 'history failed (C08)', {})]
            return [('differs', 'model-probes', 'lookup / insertion observations differ from the e-graph model; the C09 predicate holds on the implementation', {'model': model_obs[:400]})]
        return []

    def nontrivial(self, stream, case, impl_obs):
        pc = core.sx_parse(case)
        if stream['name'] == 'invariant':
            return hist_nontrivial(pc)
        kinds = [p[1] if isinstance(p[1], str) else p[1][0] for p in pc[5][1:]]
        return any(o[0] == 'union' for o in pc[3][1:]) and any(k in ('alpha', 'renamed', 'via-union') for k in kinds)

    def distribution(self, stream, cases, impl):
        d = {}
        if stream['name'] == 'invariant':
            return {'invariant-histories': len(cases)}
        for c in cases:
            pc = core.sx_parse(c)
            for p in pc[5][1:]:
                k = 'probe:' + (p[1] if isinstance(p[1], str) else p[1][0])
                d[k] = d.get(k, 0) + 1
        return d

SPEC = C09()
