from ..flow import Spec
from .. import core
from .c19 import COMMON_TB
from .c16 import has_err


def compose(p, q):
    # slot-map composition as in SlotMap::compose: first p, then q
    return tuple(q[x] for x in p)


def closure(n, gens):
    ident = tuple(range(n))
    seen = {ident}
    frontier = [ident]
    while frontier:
        nxt = []
        for x in frontier:
            for g in gens:
                y = compose(x, g)
                if y not in seen:
                    seen.add(y); nxt.append(y)
        frontier = nxt
    return seen


def pv(e):
    return tuple(e[1:])


def strip_gens(e):
    if isinstance(e, list):
        if e and e[0] == 'gens':
            return 'gens'
        return [strip_gens(x) for x in e]
    return e


def predicate(case, obs):
    """C10 on the implementation's own answers: agreement with brute-force closure."""
    if has_err(obs):
        return 'a group operation panicked'
    n = case[2]
    gens = [pv(p) for p in case[3][1:]]
    grp = closure(n, gens)
    ops = case[4:]
    for op, o in zip(ops, obs[1:]):
        kind = op if isinstance(op, str) else op[0]
        if kind == 'count':
            if o != len(grp):
                return 'count is %d, the generated group has %d elements' % (o, len(grp))
        elif kind == 'all':
            elems = set(pv(p) for p in o[1])
            if o[0] != len(o[1]):
                return 'all_perms lists an element twice (%d entries, %d distinct)' % (o[0], len(o[1]))
            if elems != grp:
                return 'all_perms is not the generated group'
        elif kind == 'gens':
            if closure(n, [pv(p) for p in o[1:]]) != grp:
                return 'generators() does not generate the same group'
        elif kind == 'trivial':
            if (o == 'true') != (len(grp) == 1):
                return 'is_trivial is wrong'
        elif kind == 'orbit':
            s = op[1]
            orb = sorted(set(g[s] for g in grp))
            if [x for x in o] != orb:
                return 'orbit(%d) is %s, brute force gives %s' % (s, core.sx_show(o), orb)
        elif kind == 'contains':
            if (o == 'true') != (pv(op[1]) in grp):
                return 'contains(%s) answers %s but the permutation is %sin the generated group' % (core.sx_show(op[1]), o, '' if pv(op[1]) in grp else 'not ')
        elif kind in ('addset', 'add'):      # Group::add(p) = add_set({p})
            new = closure(n, gens + [pv(p) for p in op[1:]])
            if (o == 'true') != (len(new) > len(grp)):
                return 'add_set reports %s but the group %s' % ('growth' if o == 'true' else 'no growth', 'grew' if len(new) > len(grp) else 'did not grow')
            gens = gens + [pv(p) for p in op[1:]]
            grp = new
    return None


class C10(Spec):
    prop = 'C10'
    coq_targets = ['theories/props/C10.vo', 'theories/Dispatch.vo']
    props_file = 'theories/props/C10.v'
    component = 'c10'
    configs = ['default', 'checks']
    quick_count = 400
    header_len = 4
    thorough_count = 6000
    trusted_base = COMMON_TB + ['modelled rather than verified: /repo/src/group/mod.rs for P = Perm (Group::new, Next::new, build_ot, schreiers_lemma, find_lowest_nonstab, contains, all_perms, count, orbit, generators, add_set); hash-set iteration order fixed to list order in the model',
                                 'hook: src/verif_hooks.rs (cfg slotted_egraphs_verif) exposes Group<Perm> read-only']
    assumptions = ['the e-graph half of the property (unions of permuted leaves) is exercised by the e-graph checks (C01/C02), not here']
    rule = ('every set of <= 3 permutations on 1, 2 and 3 slots (exhaustive), on 4 slots (every ninth set in quick, all 2325 in thorough), each probed with every permutation, all orbits, count, all_perms, '
            'an extra add_set and its repetition; random sets of 0..3 generators (transpositions, prefix cycles, random) on 5 and 6 slots with random probes. '
            'non-trivial = the generated group is neither trivial nor the full symmetric group, or the generator set is redundant')

    def gen_args(self, tier, seed, config):
        a = super().gen_args(tier, seed, config)
        if tier == 'thorough':
            a.append('--exhaustive')
        return a

    def canon(self, obs):
        return core.canon_err(strip_gens(obs))

    def nontrivial(self, case, obs):
        n = case[2]
        gens = [pv(p) for p in case[3][1:]]
        g = closure(n, gens)
        import math
        redundant = any(closure(n, gens[:i] + gens[i + 1:]) == g for i in range(len(gens)))
        return (1 < len(g) < math.factorial(n)) or (redundant and len(gens) > 0)

    def judge(self, case, impl_obs, model_obs, ctx):
        r = predicate(core.sx_parse(case), core.sx_parse(impl_obs))
        if r:
            return ('violation', r)
        return ('differs', 'group model and implementation differ, brute-force closure agrees with the implementation on this case')

    def extra_checks(self, ctx):
        cases, impl, model = ctx[ctx['config']]
        out, seen = [], set()
        for c, i in zip(cases, impl):
            r = predicate(core.sx_parse(c), core.sx_parse(i))
            if r and r.split(' ')[0] not in seen:
                seen.add(r.split(' ')[0]); out.append((c, i, r))
        return out

    def distribution(self, cases, obs):
        d = {}
        for c in cases:
            pc = core.sx_parse(c)
            k = 'slots:%d gens:%d' % (pc[2], len(pc[3]) - 1)
            d[k] = d.get(k, 0) + 1
        return d

SPEC = C10()
