import random
from ..egflow import EgSpec
from .. import core
from .egcommon import *
from .c12 import term_view

FLOW = 'eg'


def rename_sx(e, f):
    if isinstance(e, list):
        if e and e[0] == 's' and len(e) == 2:
            return ['s', f(e[1])]
        if e and e[0] == 'b' and len(e) == 3:
            return ['b', f(e[1]), rename_sx(e[2], f)]
        return [rename_sx(x, f) for x in e]
    return e


RENAMINGS = [
    ('shift', lambda x: x + 11),
    ('reverse', lambda x: 30 - x),                       # reverses the internal slot order
    ('textual', lambda x: ['n', x] if x < 16 else x),    # numeric -> textual names ($x<k>): residue 2, sorts differently
    ('scatter', lambda x: (x * 7) % 23 + 40),
    # names of the form $f<k>, the printed form of generated slots, ahead of the thread's fresh counter: the library must step its
    # counter over them (Slot::named) so that no generated slot ever coincides with one of them
    ('fnames', lambda x: ['f', 3 * x + 2]),
    # zero-padded decimal numerals as TEXTUAL names: "1", "01", "001", "2", "02", ... are pairwise different names and must be pairwise
    # different slots (only canonical numerals denote numeric slots)
    ('padded', lambda x: (x // 3 + 1) if x % 3 == 0 else ['s', ['t'] + [ord(ch) for ch in ('0' * (x % 3) + str(x // 3 + 1))]]),
]


def unrename_slots(sl, name, f):
    return sorted(core.sx_show(f(x)) for x in sl)


class C11(EgSpec):
    prop = 'C11'
    coq_targets = ['theories/props/C11.vo', 'theories/Dispatch.vo']
    props_file = 'theories/props/C11.v'
    trusted_base = EG_TB + ['EGraph/Model.v as the common oracle for the original and the renamed run']
    assumptions = ['equivariance of the e-graph algorithm is not proved (its tie-breaks use the slot order on purpose); proved is equivariance of the specified congruence Deriv',
                   'analysis data and extraction cost under renaming are exercised by the C14 / C06 checks, not here']
    rule = ('each random/motif history is run together with one renamed copy (all slot names of all inputs replaced through an injective map: shift, order-reversing, numeric->textual names, scatter, names of the form $f<k>, zero-padded numerals as textual names); '
            'compared: every equality query, live classes, per-term slot set (renamed) and symmetry count. non-trivial = history with >= 1 union and >= 2 distinct slot names')
    streams = [
        {'name': 'default', 'component': 'eg', 'config': 'default', 'quick': 300, 'thorough': 8000},
    ]

    def expand(self, stream, cases, seed):
        rng = random.Random(seed)
        out = []
        for k, c in enumerate(cases):
            pc = core.sx_parse(c)
            pc[4] = 'orig%d' % k
            out.append(core.sx_show(pc))
            i = rng.randrange(len(RENAMINGS))
            name, f = RENAMINGS[i]
            v = list(pc)
            v[2] = rename_sx(pc[2], f)
            v[4] = 'ren%dx%d' % (i, k)
            out.append(core.sx_show(v))
        return out

    def model_input(self, stream, case, impl_obs):
        pc = core.sx_parse(case)
        if isinstance(pc[4], str) and (pc[4].startswith('ren4x') or pc[4].startswith('ren5x')):
            return None     # the model's slot table does not model Slot::named's counter bump for $f<k> input names; judged on the implementation only
        return core.sx_show(['egm'] + pc[1:])

    def shrinkable(self):
        return False

    def evaluate(self, stream, case, impl_obs, model_obs, ctx):
        pc, pi = core.sx_parse(case), core.sx_parse(impl_obs)
        tag = pc[4]
        store = ctx.setdefault('c11', {})
        out = []
        if tag.startswith('orig'):
            store[tag[4:]] = (pc, pi, case)
        elif tag.startswith('ren'):
            i, k = tag[3:].split('x')
            if k in store:
                opc, opi, ocase = store[k]
                name, f = RENAMINGS[int(i)]
                e1, e2 = eqm(opi), eqm(pi)
                if (e1 is None) != (e2 is None):
                    out.append(('violation', 'panic', 'the history %s under renaming %s but not without it' % ('fails' if e2 is None else 'succeeds', name), {'original': ocase}))
                elif e1 is not None:
                    if e1[1] != e2[1]:
                        out.append(('violation', 'equality', 'renaming the slot names (%s) changes an equality answer; equations {%s}' % (name, '; '.join(describe_history(opc))), {'original': ocase}))
                    else:
                        h1, h2 = field(opi, 'handles')[1:], field(pi, 'handles')[1:]
                        for a, b in zip(h1, h2):
                            if sorted(core.sx_show(f(x)) if not isinstance(x, list) else core.sx_show(x) for x in a[0]) != sorted(core.sx_show(x) for x in b[0]) or a[1] != b[1] or a[2] != b[2]:
                                out.append(('violation', 'slots-or-symmetries', 'under renaming %s a handle has slots %s / %s symmetries / %s e-nodes in its class, the original %s / %s / %s' % (name, core.sx_show(b[0]), b[1], b[2], core.sx_show(a[0]), a[1], a[2]), {'original': ocase}))
                                break
                        if not out and field(opi, 'prog') != field(pi, 'prog'):
                            out.append(('violation', 'progress', 'renaming (%s) changes the class / slot / symmetry counts' % name, {'original': ocase}))
        if not out and model_obs is not None and impl_obs.strip() != model_obs.strip() and eqm(pi) is not None:
            out.append(('differs', 'model-obs', 'observation differs from the e-graph model (the renamed and the original implementation runs agree)', {'model': model_obs[:300]}))
        return out

    def nontrivial(self, stream, case, impl_obs):
        pc = core.sx_parse(case)
        return any(o[0] == 'union' for o in pc[3][1:])

    def distribution(self, stream, cases, impl):
        d = {'runs': len(cases)}
        for c in cases:
            t = core.sx_parse(c)[4]
            if t.startswith('ren'):
                k = 'renaming:' + RENAMINGS[int(t[3:].split('x')[0])][0]
                d[k] = d.get(k, 0) + 1
        return d

SPEC = C11()
