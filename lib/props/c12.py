import random
from ..egflow import EgSpec
from .. import core
from .egcommon import *

FLOW = 'eg'


def variant_order(pc, rng):
    """same terms, same set of unordered equations, another order: adds permuted (all adds first), unions
    permuted and randomly flipped"""
    terms, ops, hs = parts(pc)
    adds = [(k, o[1]) for k, o in enumerate([o for o in ops if o[0] == 'add'])]   # (old handle, term)
    unions = [o for o in ops if o[0] == 'union']
    perm = adds[:]
    rng.shuffle(perm)
    newh = {old: new for new, (old, _) in enumerate(perm)}
    us = unions[:]
    rng.shuffle(us)
    nops = [['add', t] for (_, t) in perm]
    for u in us:
        a, b = newh[u[1]], newh[u[2]]
        if rng.random() < 0.5:
            a, b = b, a
        nops.append(['union', a, b] + u[3:])
    # interleave: move some unions earlier when their handles are already there
    out = []
    pending = nops[len(perm):]
    have = -1
    for o in nops[:len(perm)]:
        out.append(o); have += 1
        keep = []
        for u in pending:
            if u[1] <= have and u[2] <= have and rng.random() < 0.5:
                out.append(u)
            else:
                keep.append(u)
        pending = keep
    out += pending
    v = list(pc)
    v[3] = ['ops'] + out
    return v


def term_view(pc, pi):
    """observables of C12 keyed by TERM index: equivalence over terms, live classes, per term slot count and symmetry count"""
    terms, ops, hs = parts(pc)
    e = eqm(pi)
    if e is None:
        return None
    n, bits = e
    first = {}
    for h, t in enumerate(hs):
        first.setdefault(t, h)
    ts = sorted(first)
    eq = {(a, b): bits[first[a] * n + first[b]] for a in ts for b in ts}
    hd = field(pi, 'handles')[1:]
    per = {t: (len(hd[first[t]][0]), hd[first[t]][1]) for t in ts}
    prog = field(pi, 'prog')
    return {'eq': eq, 'per': per, 'live': prog[2]}


class C12(EgSpec):
    prop = 'C12'
    coq_targets = ['theories/props/C12.vo', 'theories/Dispatch.vo']
    props_file = 'theories/props/C12.v'
    trusted_base = EG_TB + ['EGraph/Model.v as the common oracle: every run (original and permuted) is also compared with the model, so two wrong but equal runs do not pass']
    assumptions = ['confluence of the e-graph algorithm (model or implementation) is not proved; what is proved is that the SPECIFIED result (the congruence Deriv) depends on the equations only as a set of unordered pairs']
    rule = ('each random/motif history is run together with a variant: insertions permuted, unions permuted, each union randomly flipped, unions moved as early as their handles allow; '
            'compared per TERM: equivalence over all inserted terms, number of live classes, slot count and symmetry count. non-trivial = at least two unions')
    streams = [
        {'name': 'default', 'component': 'eg', 'config': 'default', 'quick': 300, 'thorough': 8000},
    ]

    def expand(self, stream, cases, seed):
        rng = random.Random(seed)
        out = []
        for k, c in enumerate(cases):
            pc = core.sx_parse(c)
            pc[4] = 'orig%d' % k
            out.append(core.sx_show(pc))
            v = variant_order(pc, rng)
            v[4] = 'var%d' % k
            out.append(core.sx_show(v))
        return out

    def model_input(self, stream, case, impl_obs):
        pc = core.sx_parse(case)
        return core.sx_show(['egm'] + pc[1:])

    def shrinkable(self):
        return False

    def evaluate(self, stream, case, impl_obs, model_obs, ctx):
        pc, pi = core.sx_parse(case), core.sx_parse(impl_obs)
        tag = pc[4]
        store = ctx.setdefault('c12', {})
        out = []
        tv = term_view(pc, pi)
        if tag.startswith('orig'):
            store[tag[4:]] = (tv, case, impl_obs)
        elif tag.startswith('var') and tag[3:] in store:
            otv, ocase, oobs = store[tag[3:]]
            if tv is not None and otv is not None:
                if tv['eq'] != otv['eq']:
                    d = [k for k in tv['eq'] if tv['eq'][k] != otv['eq'][k]][0]
                    terms = pc[2][1:]
                    out.append(('violation', 'equivalence', 'the same equations asserted in another order/orientation give a different equivalence: %s = %s is %s in one run and %s in the other; equations {%s}'
                                % (show_term(terms[d[0]]), show_term(terms[d[1]]), tv['eq'][d], otv['eq'][d], '; '.join(describe_history(pc))), {'original_order': ocase, 'original_obs': oobs}))
                elif tv['live'] != otv['live']:
                    out.append(('violation', 'live-classes', 'another order of the same insertions and unions gives %s live classes instead of %s' % (tv['live'], otv['live']), {'original_order': ocase}))
                elif tv['per'] != otv['per']:
                    d = [t for t in tv['per'] if tv['per'][t] != otv['per'][t]][0]
                    out.append(('violation', 'slots-or-symmetries', 'term %s has (slots, symmetries) = %s in one order and %s in the other'
                                % (show_term(pc[2][1:][d]), tv['per'][d], otv['per'][d]), {'original_order': ocase}))
        if not out and model_obs is not None and impl_obs.strip() != model_obs.strip() and eqm(pi) is not None:
            out.append(('differs', 'model-obs', 'observation differs from the e-graph model (order independence holds between the two implementation runs)', {'model': model_obs[:300]}))
        return out

    def nontrivial(self, stream, case, impl_obs):
        pc = core.sx_parse(case)
        return sum(1 for o in pc[3][1:] if o[0] == 'union') >= 2

    def distribution(self, stream, cases, impl):
        return {'runs': len(cases), 'pairs': len(cases) // 2}

SPEC = C12()
