from ..egflow import EgSpec
from .. import core
from .egcommon import *
from .c08 import steps_of

FLOW = 'eg'


def monotone(pc, steps):
    """C13 on the implementation's own step sequence"""
    prev = None
    nh_prev = 0
    for k, st in enumerate(steps):
        if not (isinstance(st, list) and st and st[0] == 'st'):
            return 'operation %d failed: an earlier handle could not be canonicalised / compared: %s' % (k, core.sx_show(st)[:120])
        prog = st[1][1:]
        bits = st[2][1:]
        slots = st[3]
        n = len(slots)
        if prev is not None:
            pprog, pbits, pslots, pn = prev
            for x in range(pn):
                for y in range(pn):
                    if pbits[x * pn + y] == '1' and bits[x * n + y] != '1':
                        return 'handles %d and %d compared equal after operation %d and unequal after operation %d' % (x, y, k - 1, k)
                if not set(map(core.sx_show, slots[x])) <= set(map(core.sx_show, pslots[x])):
                    return 'the slot set of handle %d grew at operation %d' % (x, k)
            a, b, c, d = prog
            pa, pb, pc_, pd = pprog
            if a < pa:
                return 'number of allocated classes decreased at operation %d' % k
            if a == pa and b > pb:
                return 'live classes increased with no class allocated at operation %d' % k
            if a == pa and b == pb and c > pc_:
                return 'slot total increased with classes unchanged at operation %d' % k
            if a == pa and b == pb and c == pc_ and d < pd:
                return 'symmetries decreased with everything else unchanged at operation %d' % k
        prev = (prog, bits, slots, n)
    return None


class C13(EgSpec):
    prop = 'C13'
    coq_targets = ['theories/props/C13.vo', 'theories/Dispatch.vo']
    props_file = 'theories/props/C13.v'
    trusted_base = EG_TB + ['EGraph/Model.v (see C08) as the oracle of the per-operation correspondence']
    assumptions = ['monotonicity of equality through rebuild is not proved for the model; it is checked on every explored history after every operation, on the implementation and against the model']
    rule = ('random mixed histories over LV by motif plus the known-defect corpus, default and checks builds; after every operation all handles obtained so far are re-canonicalised and compared pairwise; '
            'equalities must persist, slot sets only shrink, the progress measure moves lexicographically in its documented direction. non-trivial = >= 2 unions or a symmetry/redundancy/self-reference motif')
    streams = [
        {'name': 'default', 'component': 'egs', 'config': 'default', 'quick': 300, 'thorough': 8000},
        {'name': 'checks', 'component': 'egs', 'config': 'checks', 'quick': 100, 'thorough': 2000},
        # the executable premise of C13_eq_is_an_equivalence_on_reachable_states (every union is handed invocations that cover their
        # classes) and the executable part of the invariant eg_inv2, evaluated by the model on the explored histories (machine egc)
        {'name': 'invariant', 'component': 'egs', 'config': 'default', 'quick': 150, 'thorough': 3000, 'gen_extra': []},
        # old handles stay valid WITHOUT having been looked at: nothing is observed between the operations; at the end every handle is first
        # canonicalised on its own (alive, idempotent) and the first-asked equality matrix must equal the one of the run observed after every operation
        {'name': 'lazy', 'component': 'egs', 'config': 'default', 'gen_extra': ['lazy'], 'quick': 150, 'thorough': 3000},
    ]

    def model_input(self, stream, case, impl_obs):
        pc = core.sx_parse(case)
        if stream['name'] == 'invariant':
            return core.sx_show(['egc'] + [x for x in pc[1:] if x != ['lazy']])
        if is_lazy_case(pc):
            return None      # judged on the implementation alone (two runs of the same history, observed and unobserved)
        return case

    def evaluate(self, stream, case, impl_obs, model_obs, ctx):
        pc, pi = core.sx_parse(case), core.sx_parse(impl_obs)
        out = []
        if is_lazy_case(pc):
            cons = field(pi, 'cons')
            for c in (cons[1:] if cons else []):
                if c != 'ok':
                    out.append(('violation', 'stale-handle ' + core.sx_show(c)[:50], 'an old handle is not valid when it is looked at for the first time after the history: %s; asserted: {%s}'
                                % (core.sx_show(c), '; '.join(describe_history(pc))), {}))
                    return out
            st = steps_of(pi)
            if st and isinstance(st[-1], list) and st[-1] and st[-1][0] == 'err':
                out.append(('violation', 'panic', 'the history panicked: %s' % core.sx_show(st[-1]), {}))
            return out
        r = monotone(pc, steps_of(pi))
        if r:
            out.append(('violation', r.split(' at operation')[0][:60], r + '; asserted: {%s}' % '; '.join(describe_history(pc)), {}))
            return out
        if stream['name'] == 'invariant':
            bad = egc_verdict(model_obs, ['covered', 'invb', 'handles-cover', 'self-symmetries', 'stored-live', 'handles-rep'])   # terms-static is a premise on the INPUT (no name bound twice in one node), reported but not required
            if bad:
                out.append(('differs', 'invariant-premise', 'on this history the executable premise of the proved equivalence theorem, or the executable invariant, is false in the model: %s (%s)' % (bad, model_obs.strip()), {}))
            return out
        if model_obs is not None and core.sx_show(field(pi, 'steps')) != model_obs.strip():
            out.append(('differs', 'model-steps', 'per-operation observations differ from the e-graph model; equalities, slots and progress are monotone on the implementation', {'model': model_obs[:400]}))
        return out

    def nontrivial(self, stream, case, impl_obs):
        return hist_nontrivial(core.sx_parse(case))

    def distribution(self, stream, cases, impl):
        d = {}
        for c in cases:
            pc = core.sx_parse(c)
            d['operations'] = d.get('operations', 0) + len(pc[3]) - 1
            d['unions'] = d.get('unions', 0) + sum(1 for o in pc[3][1:] if o[0] == 'union')
        return d

SPEC = C13()
