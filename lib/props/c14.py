from ..egflow import EgSpec
from .. import core
from .egcommon import *

FLOW = 'eg'
AN = ['min-size', 'constant-folding', 'depth', 'cap-depth-3', 'cap-depth-8']


class C14(EgSpec):
    prop = 'C14'
    coq_targets = ['theories/props/C14.vo', 'theories/Dispatch.vo']
    props_file = 'theories/props/C14.v'
    trusted_base = EG_TB + ['EGraph/ModelA.v: hand-written Gallina mirror of the e-graph core WITH analysis (make/merge/modify bookkeeping of src/egraph/{add,union,rebuild}.rs), instantiated for the analyses of harness/src/eg14.rs; oracle of the per-operation correspondence',
                            'the analyses are implemented twice (harness/src/eg14.rs, ModelAMachine.v)']
    assumptions = ['that the concrete bookkeeping of rebuild establishes the hypotheses of the abstract fixpoint theorem (stable + justified) in every reachable state is not proved; it is checked per run after every operation by recomputing the join over the e-nodes on the implementation',
                   'generated histories are sound for constant folding (no union of terms with different known constants), as a semilattice merge requires']
    rule = ('random/motif histories plus arithmetic terms (add, mul, num) under min-size, constant folding (with its modify hook) and depth; after EVERY operation: data of all handles (compared with the analysis model) and on the implementation, '
            'for every live class, stored datum = join of make over its e-nodes from the children\'s current data; at the end min-size = extractor best cost. A small stream uses the probe analysis cap-depth (make = min(C, 1 + max children), merge = max), '
            'which exposes two listed findings. non-trivial = a datum of some handle changed after its class was first computed')
    streams = [
        {'name': 'default', 'component': 'eg14', 'config': 'default', 'quick': 300, 'thorough': 8000},
        {'name': 'checks', 'component': 'eg14', 'config': 'checks', 'quick': 90, 'thorough': 2000},
        {'name': 'capdepth', 'component': 'eg14', 'config': 'default', 'quick': 60, 'thorough': 1500, 'gen_extra': ['--an', '3']},
        # NOTHING observed between the operations (observation canonicalises and compresses union-find paths): at the end the datum read through
        # every old handle id must be the datum of the class's leader ("equal classes share one datum"), then the fixpoint predicate as first reader
        {'name': 'lazy', 'component': 'eg14', 'config': 'default', 'quick': 200, 'thorough': 5000, 'gen_extra': ['lazy']},
    ]

    def evaluate(self, stream, case, impl_obs, model_obs, ctx):
        pc, pi = core.sx_parse(case), core.sx_parse(impl_obs)
        an = pc[5][1] if len(pc) > 5 else 0
        out = []
        steps = field(pi, 'steps')
        for k, st in enumerate(steps[1:] if steps else []):
            if isinstance(st, list) and st and st[0] == 'err':
                out.append(('violation', 'panic ' + core.sx_show(st[-1]), 'analysis %s: operation %d panicked at %s; asserted so far: {%s}' % (AN[an], k, core.sx_show(st[-1]), '; '.join(describe_history(pc))), {'analysis': AN[an]}))
                return out
        fx = field(pi, 'fix')
        lazy = is_lazy_case(pc)
        if lazy and fx and len(fx) > 1 and fx[1] != 'ok':
            out.append(('violation', 'stale-datum', 'analysis %s: equal classes do not share one datum: read through an old handle id (first lookup after the history) the datum differs from the leader\'s: %s (handle, through the old id, through the leader); asserted: {%s}'
                        % (AN[an], core.sx_show(fx[1]), '; '.join(describe_history(pc))), {'analysis': AN[an]}))
            return out
        for k, f in enumerate(fx[1:] if fx else []):
            if lazy and k == 0:
                continue
            if f != 'ok':
                out.append(('violation', 'not-a-fixpoint', 'analysis %s: after operation %d the datum of a class differs from the join of make over its e-nodes: %s (class stored recomputed); asserted: {%s}'
                            % (AN[an], k, core.sx_show(f), '; '.join(describe_history(pc))), {'analysis': AN[an]}))
                return out
        b = field(pi, 'best')
        if b is not None and len(b) > 1 and b[1] not in ('ok', 'na'):
            out.append(('violation', 'min-size-not-best-cost', 'the min-size datum of a handle differs from the extractor\'s best cost: ' + core.sx_show(b), {}))
            return out
        if lazy:
            pm = core.sx_parse(model_obs) if model_obs is not None else None
            if pm is not None and isinstance(pm, list) and len(pm) > 1 and steps and len(steps) > 1 and core.sx_show(steps[-1]) != core.sx_show(pm[-1]):
                out.append(('differs', 'model-final', 'analysis %s: the observation at the end of the unobserved history differs from the analysis model\'s last step' % AN[an], {'model': core.sx_show(pm[-1])[:300]}))
            return out
        if model_obs is not None and steps is not None and core.sx_show(steps) != model_obs.strip():
            out.append(('differs', 'model-steps', 'analysis %s: per-operation data / equalities differ from the analysis model; the fixpoint predicate holds on the implementation' % AN[an], {'model': model_obs[:300]}))
        return out

    def nontrivial(self, stream, case, impl_obs):
        pi = core.sx_parse(impl_obs)
        steps = field(pi, 'steps')
        seen = {}
        for st in (steps[1:] if steps else []):
            if isinstance(st, list) and st and st[0] == 'st':
                d = [e for e in st if isinstance(e, list) and e and e[0] == 'data']
                if d:
                    for i, x in enumerate(d[0][1:]):
                        sx = core.sx_show(x)
                        if i in seen and seen[i] != sx:
                            return True
                        seen[i] = sx
        return False

    def classify_known(self, stream, case, impl_obs, reason, known):
        for k in known.get('findings', []):
            if k['property'] == 'C14' and all(m in reason for m in k['match'].split('&&')):
                return k
        return None

    def distribution(self, stream, cases, impl):
        d = {}
        for c in cases:
            pc = core.sx_parse(c)
            an = pc[5][1] if len(pc) > 5 else 0
            d['analysis:' + AN[an]] = d.get('analysis:' + AN[an], 0) + 1
        return d

SPEC = C14()
