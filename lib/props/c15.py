from ..egflow import EgSpec
from .. import core
from .egcommon import *

FLOW = 'eg'


def tb(e):
    return e == 'true'


def judge_egq(pc, pi):
    """C15 on the implementation's own observation of one run; returns a reason or None"""
    mode = pc[6][1]
    ilim, nlim = pc[7][1], pc[7][2]
    hookj = pc[8][1] if isinstance(pc[8][1], int) else None
    tr = field(pi, 'trace')
    if tr is None:
        return None
    tr = [(tb(t[1]), t[2], t[3], t[4], tb(t[5])) for t in tr[1:]]
    for k, t in enumerate(tr):
        if not t[0] and not t[4]:
            return 'iteration %d left the progress measure unchanged (apply_rewrites reports no change) but the independent fingerprint of the e-graph changed' % k
    rets = field(pi, 'rets')
    if rets is not None:
        for k, r in enumerate(rets[1:]):
            if not tb(r) and k < len(tr) and not tr[k][4]:
                return 'apply_rewrites call %d returned false although the e-graph changed observably' % k
        return None
    rep = field(pi, 'report')
    fin = field(pi, 'final')
    again = field(pi, 'again')
    if rep is None or fin is None:
        return None      # a panic inside the run: not this property (C08/C03 streams judge panics)
    its, reason, rn, rc = rep[1], rep[2], rep[3], rep[4]
    if rn != fin[1]:
        return 'the report says %d e-nodes, total_number_of_nodes() of the final e-graph is %d' % (rn, fin[1])
    if mode == 'run':
        k = its - 1
        if its > ilim + 2:
            return 'Runner::run made %d iterations with iter_limit %d (bound: limit + 2)' % (its, ilim)
        if rc != fin[2]:
            return 'the report says %d classes, the final e-graph has %d' % (rc, fin[2])
        if len(tr) != its:
            return 'the hook ran %d times in %d iterations' % (len(tr), its)
        rn_ = field(pi, 'runner')
        if rn_ is not None and (rn_[1] != its or not tb(rn_[2])):
            return 'report and runner state disagree (iterations recorded %d vs reported %d, stop reasons equal: %s)' % (rn_[1], its, rn_[2])
    else:
        k = its
        if its > ilim:
            return 'run_eqsat reports %d iterations with iter_limit %d' % (its, ilim)
        if rc != fin[3]:
            return 'the report says %d classes, the final e-graph has %d live classes' % (rc, fin[3])
        if len(tr) != its + 1:
            return 'the hook ran %d times in %d passes' % (len(tr), its + 1)
    if k < 0 or k >= len(tr):
        return 'the report counts %d iterations but %d were observed' % (its, len(tr))
    last = tr[k]
    if reason == 'saturated':
        if last[0] or not last[4]:
            return 'stopped as saturated although the last iteration changed the e-graph'
        if again is not None and (tb(again[1]) or not tb(again[2])):
            return 'stopped as saturated, yet applying every rule once more changed the e-graph (apply_rewrites returned %s, fingerprint unchanged: %s)' % (again[1], again[2])
        if hookj == k:
            return 'stopped as saturated in the iteration in which the hook failed'
    elif reason == 'iterlimit':
        if (mode == 'run' and not k > ilim) or (mode == 'eqsat' and not k >= ilim):
            return 'stopped for the iteration limit %d in iteration %d' % (ilim, k)
    elif reason == 'nodelimit':
        if mode != 'run' or not fin[1] > nlim:
            return 'stopped for the node limit %d with %d nodes' % (nlim, fin[1])
    elif reason == 'timelimit':
        return 'stopped for the time limit (one hour) after a fraction of a second'
    elif isinstance(reason, list) and reason[0] == 'other':
        if hookj is None or reason[1] != hookj or k != hookj:
            return 'stopped with the hook error %s in iteration %d; the hook fails in iteration %s only' % (reason[1], k, hookj)
    else:
        return 'unknown stop reason %s' % core.sx_show(reason)
    return None


def judge_egr(pi):
    prev = None
    for e in pi[1:]:
        if isinstance(e, list) and e and e[0] == 'it':
            cur = (core.sx_show(e[3]), e[4], core.sx_show(e[5]))
            if prev is not None and not tb(e[1]) and cur != prev:
                return 'apply_rewrites returned false although progress measure, equalities over the handles or node count changed'
            prev = cur
    return None


class C15(EgSpec):
    prop = 'C15'
    coq_targets = ['theories/props/C15.vo', 'theories/Dispatch.vo']
    props_file = 'theories/props/C15.v'
    trusted_base = EG_TB + [
        'Run/Runner.v: hand-written model of Runner::run / run_one / RunnerLimits::check_limits (src/run/runner.rs) and run_eqsat (src/run/run.rs) over abstract oracles; hooks are modelled as observers (a hook that mutates the e-graph is outside the model); the clock is an oracle; Report.total_time is not modelled',
        'harness/src/egq.rs: the hook that records the trace, and the independent fingerprint (live classes, slots, canonical e-nodes, equality matrix and slots of all handles, node count)',
        'EGraph/Rewrite.v: hand-written model of apply_rewrites, tied by the egr stream (it replays the implementation\'s match order, which follows hash-map iteration order)']
    assumptions = ['"an unchanged progress measure means nothing observable changed" is not proved for the e-graph model; it is checked with the independent fingerprint after every iteration of every explored run',
                   'time limits are not exercised (the clock oracle is never late in the explored runs)']
    rule = ('random histories over LV, rule subsets of a 24-rule pool (symmetry, binder, conditional and substitution rules), mode run / eqsat / manual, iteration limit 0..4, node limit generous or tight (3..30), hook failing in iteration 0..3 or never; '
            'per run: stop reason true of the final state, iteration bound, report counters = e-graph counters, "no progress" => fingerprint unchanged, one more apply_rewrites after saturation changes nothing; '
            'the abstract loops (Run/Runner.v) replayed on the recorded trace must give the same report; egr stream: apply_rewrites vs EGraph/Rewrite.v. non-trivial = at least one iteration changed the e-graph')
    streams = [
        {'name': 'drivers', 'component': 'egq', 'config': 'default', 'quick': 400, 'thorough': 12000},
        {'name': 'drivers_checks', 'component': 'egq', 'config': 'checks', 'quick': 100, 'thorough': 2000},
        {'name': 'rewrites', 'component': 'egr', 'config': 'default', 'quick': 200, 'thorough': 4000},
    ]

    def evaluate(self, stream, case, impl_obs, model_obs, ctx):
        pc, pi = core.sx_parse(case), core.sx_parse(impl_obs)
        out = []
        if stream['component'] == 'egq':
            r = judge_egq(pc, pi)
            if r:
                out.append(('violation', r[:40], r, {}))
                return out
            rep = field(pi, 'report')
            if rep is not None and model_obs is not None:
                pm = core.sx_parse(model_obs)
                if not (isinstance(pm, list) and pm[:1] == ['report'] and pm[1:5] == rep[1:5]):
                    out.append(('differs', 'model-report', 'the loops of Run/Runner.v replayed on the recorded trace give the report %s, the implementation reported %s; every stop-reason predicate holds on the implementation' % (model_obs.strip()[:200], core.sx_show(rep)), {}))
        else:
            r = judge_egr(pi)
            if r:
                out.append(('violation', r[:40], r, {}))
                return out
            if model_obs is not None and model_obs.strip() != impl_obs.strip():
                out.append(('differs', 'model-rewrites', 'apply_rewrites observations differ from EGraph/Rewrite.v', {'model': model_obs[:600]}))
        return out

    def nontrivial(self, stream, case, impl_obs):
        return '(t true' in impl_obs or '(it true' in impl_obs

    def distribution(self, stream, cases, impl):
        d = {}
        for c, i in zip(cases, impl):
            pi = core.sx_parse(i)
            rep = field(pi, 'report')
            if rep is not None:
                key = 'stop:' + (rep[2] if isinstance(rep[2], str) else 'other')
                d[key] = d.get(key, 0) + 1
            tr = field(pi, 'trace')
            if tr is not None:
                d['iterations'] = d.get('iterations', 0) + len(tr) - 1
        return d

SPEC = C15()
