from ..flow import Spec
from .. import core
from .c19 import COMMON_TB


def text_of(e):
    return ''.join(chr(c) for c in e[1:])


def predicate(case, obs):
    """C17 evaluated directly on the implementation's observations.  Returns None or a reason."""
    ops = case[2:]
    if not isinstance(obs, list) or obs[0] != 'obs':
        return 'harness failure: ' + core.sx_show(obs)
    outs = []          # (first_index, printed_name, op)
    named_first = {}   # text -> first index
    j = 0
    for op in ops:
        if j + 1 >= len(obs):
            break
        o = obs[j + 1]
        j += 1
        if o == 'skip':
            continue
        kind = op if isinstance(op, str) else op[0]
        if isinstance(o, list) and o and o[0] == 'err':
            if kind == 'numeric' and op[1] >= 2 ** 30:
                return None    # outside the quantifier (numeric names below 2^30)
            if kind == 'fresh':
                # capacity limit: the u32 counter is exhausted once $f(2^30-2) exists; a (checked) panic
                # there returns no slot at all, so freshness is not violated
                fs = [int(x[1][1:]) for x in outs if x[1][:1] == 'f' and x[1][1:].isdigit() and x[1][1:] == str(int(x[1][1:]))]
                if fs and max(fs) >= 2 ** 30 - 2:
                    return None
            return 'operation %s panicked' % core.sx_show(op)
        first, name = o[0], o[1]
        pos = len(outs)
        if isinstance(name, list) and name and name[0] == 'err':
            return 'printing the slot produced by %s panicked' % core.sx_show(op)
        pname = text_of(name)
        if kind == 'fresh' and first != pos:
            return 'Slot::fresh returned a slot equal to the one produced earlier at position %d' % first
        if kind == 'named':
            t = text_of(op[1])
            if pname != t:
                return 'name %r denotes a slot that prints as %r (so two distinct names denote one slot)' % (t, pname)
        if kind == 'numeric' and op[1] < 2 ** 30 and pname != str(op[1]):
            return 'numeric slot %d prints as %r' % (op[1], pname)
        if kind == 'reparse':
            k = op[1]
            if first != outs[k][0]:
                return 'printing slot %d (%r) and parsing the name back gives a different slot' % (k, outs[k][1])
        for (f2, n2, _) in outs:
            if (f2 == first) != (n2 == pname):
                return 'equality of slots and equality of printed names disagree (%r vs %r)' % (n2, pname)
        outs.append((first, pname, kind))
    return None


class C17(Spec):
    prop = 'C17'
    coq_targets = ['theories/props/C17.vo', 'theories/Dispatch.vo']
    props_file = 'theories/props/C17.v'
    component = 'c17'
    configs = ['default', 'default-dev']
    quick_count = 6000
    thorough_count = 150000
    trusted_base = COMMON_TB + ['modelled rather than verified: /repo/src/slot.rs (fresh, numeric, named, Display, the thread-local table) with u32 wrap-around written out; str::parse::<u32> modelled by Decimal.uint conversion (ASCII digits, optional +); stdlib lemmas DecimalN.Unsigned.of_to/to_of']
    assumptions = ['each case runs in a fresh thread, so the table starts at its initial value (C20 covers thread independence)',
                   'HashMap named_map is modelled as first-occurrence search in named_vec (same function when keys are unique)']
    rule = ('random interleavings (2..24 operations) of fresh, numeric (incl. 2^30-1, 2^30-2), named and print-then-reparse; names drawn from: canonical digits, '
            'leading zeros, +/- signs, f<digits>, f+<digits>, values around 2^30, 2^31, 2^32, non-ASCII digits, whitespace/brackets, empty; debug and release builds. '
            'non-trivial = contains a fresh after a parsed f<n> name, or a name with sign / leading zero / boundary value')

    def canon(self, obs):
        return core.canon_err(obs)

    def nontrivial(self, case, obs):
        seen_f = False
        for op in case[2:]:
            if isinstance(op, list) and op[0] == 'named':
                t = text_of(op[1])
                if t.startswith('f') and t[1:].isdigit():
                    seen_f = True
                if t[:1] in '+-' or (len(t) > 1 and t[0] == '0') or (t.lstrip('f+').isdigit() and int(t.lstrip('f+')) >= 2 ** 30 - 2):
                    return True
            if op == 'fresh' and seen_f:
                return True
        return False

    def judge(self, case, impl_obs, model_obs, ctx):
        r = predicate(core.sx_parse(case), core.sx_parse(impl_obs))
        if r:
            return ('violation', r)
        return ('differs', 'slot table model and implementation differ, but freshness / injectivity / round-trip hold on this case')

    def extra_checks(self, ctx):
        cases, impl, model = ctx[ctx['config']]
        out = []
        for c, i in zip(cases, impl):
            r = predicate(core.sx_parse(c), core.sx_parse(i))
            if r:
                out.append((c, i, r))
                if len(out) >= 5:
                    break
        return out

    def distribution(self, cases, obs):
        d = {}
        for c in cases:
            for o in core.sx_parse(c)[2:]:
                k = o if isinstance(o, str) else o[0]
                d['op:' + k] = d.get('op:' + k, 0) + 1
        d['cases_ending_in_error'] = sum(1 for o in obs if '(err' in o.split(' (')[-1])
        return d

SPEC = C17()
