from ..flow import Spec
from .. import core
from .c19 import COMMON_TB
from .c16 import has_err

# number of applied-id fields per variant of LV (mirror of harness/src/lang.rs VARIANTS)
FIELDS = ["ss", "sss", "ssss", "", "", "s", "a", "aa", "b", "aa", "ba", "aB", "sbs", "aa", "aa", "b", "sa", "u", "o", "y"]
NAPP = [sum(1 for c in f if c in 'abB') for f in FIELDS]


def arity_ok(p):
    if not isinstance(p, list):
        return True
    if p[0] == 'pn':
        v = p[1][1]
        if len(p) - 2 != NAPP[v]:
            return 'node of variant %d has %d children, its operator takes %d' % (v, len(p) - 2, NAPP[v])
        for c in p[2:]:
            r = arity_ok(c)
            if r is not True:
                return r
        return True
    if p[0] == 'sub':
        for c in p[1:]:
            r = arity_ok(c)
            if r is not True:
                return r
    return True


def predicate(case, obs):
    kind = case[2]
    expected = case[4] if len(case) > 4 else None
    if has_err(obs):
        return 'parsing (or printing the parsed value) panicked'
    if obs == 'parse-error':
        if expected is not None:
            return 'the printed form of a well-formed value does not parse'
        return None
    if not isinstance(obs, list) or obs[0] != 'ok':
        return 'harness failure: ' + core.sx_show(obs)
    if kind in ('pat', 're'):
        val, printed, re = obs[1], obs[2], obs[3]
        r = arity_ok(val)
        if r is not True:
            return r
        if expected is not None and core.sx_show(val) != core.sx_show(expected):
            return 'parse(print(v)) differs from v'
        if expected is not None and core.sx_show(printed) != core.sx_show(case[3]):
            return 'print(parse(print(v))) differs from print(v)'
        if core.sx_show(re) != core.sx_show(val):
            return 'parsing the printed value does not give the value back'
    else:
        printed, re = obs[1], obs[2]
        if core.sx_show(re) != core.sx_show(printed):
            return 'printing a multi-pattern and parsing the text back does not round-trip'
        if expected == 'wellformed':
            canon = lambda t: ''.join(chr(c) for c in t[1:])
            if canon(printed) != canon(case[3]):
                return 'print(parse(text)) differs from the canonical multi-pattern text'
    return None


class C18(Spec):
    prop = 'C18'
    coq_targets = ['theories/props/C18.vo', 'theories/Dispatch.vo']
    props_file = 'theories/props/C18.v'
    component = 'c18'
    configs = ['default', 'default-dev']
    quick_count = 6000
    header_len = 5            # (c18 dbg kind text expected): nothing to drop; dropping `expected` would turn a round-trip case into a plain text
    thorough_count = 200000
    trusted_base = COMMON_TB + ['modelled rather than verified: /repo/src/parse.rs (tokenize, crop_ident, parse_pattern*, RecExpr/Pattern/MultiPattern::parse, the Display impls), from_syntax/to_syntax through the signature model of C16, char::is_whitespace as the Unicode White_Space set']
    assumptions = ['payload values used in round-trip cases print unambiguously (generator pools); slots are created in a fresh thread per case']
    rule = ('generated patterns / terms / multi-patterns over LV (depth <= 3; numeric, textual, non-ASCII and f<n> slot names; payloads u32/bool/Symbol; nested b[x := t]) printed by Display and parsed back, '
            'and texts obtained by truncating, splicing, deleting, inserting and replacing characters of valid texts, plus short random strings over "()[]?$:= ,a1f0+-" with tab/nbsp/lambda. '
            'non-trivial = round trip of a value of depth >= 2 with a payload or substitution bracket, or a malformed text that is not rejected by the tokenizer alone')

    def canon(self, obs):
        return core.canon_err(obs)

    def nontrivial(self, case, obs):
        if len(case) > 4:
            s = core.sx_show(case[4]) if not isinstance(case[4], str) else ''
            return s.count('(pn') >= 3 and ('(sub' in s or '(pu' in s or '(ps' in s or '(pb' in s) or case[2] == 'mp'
        return True

    def judge(self, case, impl_obs, model_obs, ctx):
        r = predicate(core.sx_parse(case), core.sx_parse(impl_obs))
        if r:
            return ('violation', r)
        return ('differs', 'parser model and implementation differ on this text; round trip / totality / arity hold on the implementation here')

    def extra_checks(self, ctx):
        cases, impl, model = ctx[ctx['config']]
        out, seen = [], set()
        for c, i in zip(cases, impl):
            r = predicate(core.sx_parse(c), core.sx_parse(i))
            if r and r not in seen:
                seen.add(r); out.append((c, i, r))
        return out

    def distribution(self, cases, obs):
        d = {}
        for c, o in zip(cases, obs):
            pc = core.sx_parse(c)
            k = 'kind:%s:%s' % (pc[2], 'roundtrip' if len(pc) > 4 else 'malformed')
            d[k] = d.get(k, 0) + 1
            r = 'result:' + ('ok' if o.startswith('(ok') else o if o == 'parse-error' else 'err')
            d[r] = d.get(r, 0) + 1
        return d

SPEC = C18()
