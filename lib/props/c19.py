from ..flow import Spec
from .. import core

COMMON_TB = [
    'Coq 8.16.1 kernel (coqc; coqchk in the thorough tier); vm_compute for non-vacuity examples and the per-run cases.v cross-check; no native_compute',
    'axioms: none (every theorem in props/ prints "Closed under the global context")',
    'hand-written Gallina model (coq/theories), tied to /repo by the per-run correspondence only',
    'extraction with ExtrOcamlBasic only (Extract Inductive bool, option, unit, list, prod, sumbool, sumor; Extract Inlined Constant andb, orb, negb, fst, snd), OCaml 4.13.1, ocaml/driver.ml (s-expression reader/printer, N<->int conversion)',
    'Rust harness /verif/harness (generators, canonicaliser), rustc/cargo, lib/*.py comparison code',
]

class C19(Spec):
    prop = 'C19'
    coq_targets = ['theories/props/C19.vo', 'theories/Dispatch.vo']
    props_file = 'theories/props/C19.v'
    component = 'c19'
    configs = ['default', 'checks']
    quick_count = 3000
    thorough_count = 60000
    trusted_base = COMMON_TB + ['modelled rather than verified: /repo/src/slotmap.rs (all public methods, Index, FromIterator, From<[_;N]>, derived Eq/Ord/Hash); smallvec and binary_search_by_key assumed to meet their documented contracts']
    assumptions = ['SlotMap fields are private, so every SlotMap value is produced by the modelled operations (theorem C19_reachable_wf covers exactly those)',
                   'Hash is compared on the implementation side only (equal maps => equal hashes; unequal maps => unequal 64-bit hashes up to collision)']
    rule = ('cases: (a) every partial map over four slots built in two orders + all unary operations/queries (625 cases, exhaustive), '
            '(b) ordered pairs of such maps with every binary operation (sampled in quick, all 390625 in thorough), '
            '(c) random operation sequences of length <=5 over 4 slots, <=20 over 6 slots, <=40 over 16 slots (beyond the inline capacity of ten). '
            'distinct = distinct case line; non-trivial = contains an overwrite/removal or a composition/inversion/union on a non-empty map, or a map with more than ten entries')

    def gen_args(self, tier, seed, config):
        a = super().gen_args(tier, seed, config)
        if tier == 'thorough':
            a.append('--exhaustive')
        return a

    def canon(self, obs):
        return core.canon_err(core.canon_fresh(obs))

    def nontrivial(self, case, obs):
        ops = [o[0] for o in case[2:] if isinstance(o, list)]
        big = any(isinstance(o, list) and len(o) > 11 and o[0] == 'm' for o in (obs[1:] if isinstance(obs, list) else []))
        return big or (any(o in ('rem', 'ins') for o in ops) and any(o in ('inv', 'comp', 'compp', 'compf', 'union', 'tunion') for o in ops)) \
            or (ops[:1] == ['fromp'] and len(case[2]) > 3)

    def judge(self, case, impl_obs, model_obs, ctx):
        return ('violation', 'SlotMap disagrees with the reference finite map (the model, proved to refine lookup semantics: C19_get_* theorems) on this operation sequence')

    def distribution(self, cases, obs):
        d = {}
        for c in cases:
            for o in core.sx_parse(c)[2:]:
                d['op:' + o[0]] = d.get('op:' + o[0], 0) + 1
        d['cases_ending_in_error'] = sum(1 for o in obs if '(err' in o)
        return d

SPEC = C19()
