from ..egflow import EgSpec
from .. import core
from .egcommon import *

FLOW = 'eg'


class C20(EgSpec):
    prop = 'C20'
    coq_targets = ['theories/props/C20.vo', 'theories/Dispatch.vo']
    props_file = 'theories/props/C20.v'
    trusted_base = EG_TB + ['EGraph/Model.v as oracle for the canonical transcript; the raw transcripts are compared implementation against implementation']
    assumptions = ['this is the property a theorem contributes least to: memory addresses, hash seeds and other threads do not exist in a Gallina model. Proved is only what the model can carry (the model is a function of the history; the per-thread slot table starts fresh and never reuses a slot). The decisive part is the concurrent replay on the implementation.',
                   'stdout of EGraph::dump is not captured; its content (classes in id order, e-nodes in hash-set iteration order) is reproduced through ids()/slots()/enodes()',
                   'reproducibility across PROCESSES is not covered: Symbol (symbol_table::GlobalSymbol) orders and hashes by a process-global interning index']
    rule = ('random histories with Symbol and u32 payload leaves; each is replayed in three fresh threads released by a barrier, concurrently with two noise threads that intern symbols, draw fresh and named slots and run an unrelated e-graph; '
            'raw transcript per replay: every returned invocation (ids, slot maps), per class the slot list and the e-nodes in hash-set iteration order, the match list of (h ?a ?b), six extracted terms. non-trivial = >= 2 unions')
    streams = [
        {'name': 'default', 'component': 'eg20', 'config': 'default', 'quick': 250, 'thorough': 6000},
    ]

    def shrinkable(self):
        return False

    def model_input(self, stream, case, impl_obs):
        pc = core.sx_parse(case)
        return core.sx_show(['egm'] + pc[1:])

    def evaluate(self, stream, case, impl_obs, model_obs, ctx):
        pc, pi = core.sx_parse(case), core.sx_parse(impl_obs)
        rep = field(pi, 'replays')
        out = []
        if rep is None:
            return [('differs', 'no-replay-info', 'harness produced no replay verdict: ' + impl_obs[:200], {})]
        if rep[2] != 'identical':
            a = ''.join(chr(k) for k in rep[2][2][1:]); b = ''.join(chr(k) for k in rep[2][3][1:])
            out.append(('violation', 'transcripts-differ', 'two concurrent replays of one history in fresh threads produced different transcripts; first difference at line %d: %r versus %r' % (rep[2][1], a, b), {}))
            return out
        body = core.sx_show(pi[:-1])
        if model_obs is not None and body != model_obs.strip() and eqm(pi) is not None:
            out.append(('differs', 'model-obs', 'canonical observation of the replay differs from the e-graph model (the replays agree with each other)', {'model': model_obs[:300]}))
        return out

    def nontrivial(self, stream, case, impl_obs):
        pc = core.sx_parse(case)
        return sum(1 for o in pc[3][1:] if o[0] == 'union') >= 2

    def distribution(self, stream, cases, impl):
        return {'histories': len(cases), 'replays': 3 * len(cases), 'noise_threads': 2}

SPEC = C20()
