# shared helpers for the e-graph property specs
from .. import core
from .c19 import COMMON_TB

NAMES = ['f', 'g', 'g4', 'c', 'd', 'var', 'u', 'h', 'lam', 'app', 'let', 'sum2', 'k', 'add', 'mul', 'sum', 'tag', 'num', 'flag', 'sym']

EG_TB = [x for x in COMMON_TB if not x.startswith('axioms:')] + [
    'axioms: functional_extensionality_dep (Coq standard library) is used by Deriv_sound and by the theorems that evaluate under binders (C03: pool validity, instantiation lemma, soundness of the congruence in F_p); every other theorem is closed under the global context (Print Assumptions is run under every theorem of props/ on every check and compared with this allow-list)',
    'the semantic layer (Sem/: canonical terms, Deriv, bounded closure, algebras) and the explanation checker are specifications/checkers written for this purpose, not models of /repo code; what is modelled of /repo is the term encoding (RecExpr <-> rterm -> cterm) done by the harness and Sem/Term.v',
]


def show_term(t):
    nd = t[1]; v = nd[1]; ch = list(t[2:])
    def sa(x):
        if x[0] == 's':
            return '$' + core.sx_show(x[1])
        if x[0] == 'a':
            return show_term(ch.pop(0)) if ch else '?'
        if x[0] == 'b':
            return '$%s.%s' % (core.sx_show(x[1]), sa(x[2]))
        return core.sx_show(x)
    return '(' + ' '.join([NAMES[v]] + [sa(x) for x in nd[2:]]) + ')'


def parts(case):
    """(terms, ops, handle->term index) of a parsed eg/egx case"""
    terms = case[2][1:]
    ops = case[3][1:]
    hs = [o[1] for o in ops if o[0] == 'add']
    return terms, ops, hs


def field(obs, key):
    if not isinstance(obs, list):
        return None
    for e in obs[1:]:
        if isinstance(e, list) and e and e[0] == key:
            return e
    return None


def eqm(obs):
    e = field(obs, 'eqm')
    if e is None or e[1] == 'err':
        return None
    return e[1], e[2][1:]


def hist_nontrivial(case):
    motif = case[4] if len(case) > 4 else ''
    nun = sum(1 for o in case[3][1:] if o[0] == 'union')
    return motif in ('symmetry', 'redundancy', 'self-reference', 'corpus') or nun >= 2


def describe_history(case):
    terms, ops, hs = parts(case)
    out = []
    for o in ops:
        if o[0] == 'union':
            out.append('%s = %s' % (show_term(terms[hs[o[1]]]), show_term(terms[hs[o[2]]])))
    return out
