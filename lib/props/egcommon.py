# shared helpers for the e-graph property specs
from .. import core
from .c19 import COMMON_TB

NAMES = ['f', 'g', 'g4', 'c', 'd', 'var', 'u', 'h', 'lam', 'app', 'let', 'sum2', 'k', 'add', 'mul', 'sum', 'tag', 'num', 'flag', 'sym']

EG_TB = [x for x in COMMON_TB if not x.startswith('axioms:')] + [
    'axioms: functional_extensionality_dep (Coq standard library) is used by Deriv_sound and by the theorems that evaluate under binders (C03: pool validity, instantiation lemma, soundness of the congruence in F_p); every other theorem is closed under the global context (Print Assumptions is run under every theorem of props/ on every check and compared with this allow-list)',
    'the semantic layer (Sem/: canonical terms, Deriv, bounded closure, algebras) and the explanation checker are specifications/checkers written for this purpose, not models of /repo code; what is modelled of /repo is the term encoding (RecExpr <-> rterm -> cterm) done by the harness and Sem/Term.v',
]


def show_term(t):
    nd = t[1]; v = nd[1]; ch = list(t[2:])
    def sa(x):
        if x[0] == 's':
            return '$' + core.sx_show(x[1])
        if x[0] == 'a':
            return show_term(ch.pop(0)) if ch else '?'
        if x[0] == 'b':
            return '$%s.%s' % (core.sx_show(x[1]), sa(x[2]))
        return core.sx_show(x)
    return '(' + ' '.join([NAMES[v]] + [sa(x) for x in nd[2:]]) + ')'


def parts(case):
    """(terms, ops, handle->term index) of a parsed eg/egx case"""
    terms = case[2][1:]
    ops = case[3][1:]
    hs = [o[1] for o in ops if o[0] == 'add']
    return terms, ops, hs


def field(obs, key):
    if not isinstance(obs, list):
        return None
    for e in obs[1:]:
        if isinstance(e, list) and e and e[0] == key:
            return e
    return None


def eqm(obs):
    e = field(obs, 'eqm')
    if e is None or e[1] == 'err':
        return None
    return e[1], e[2][1:]


def hist_nontrivial(case):
    motif = case[4] if len(case) > 4 else ''
    nun = sum(1 for o in case[3][1:] if o[0] == 'union')
    return motif in ('symmetry', 'redundancy', 'self-reference', 'chain', 'corpus') or nun >= 2


def describe_history(case):
    terms, ops, hs = parts(case)
    out = []
    for o in ops:
        if o[0] == 'union':
            out.append('%s = %s' % (show_term(terms[hs[o[1]]]), show_term(terms[hs[o[2]]])))
    return out


def egc_verdict(model_obs, wanted=None):
    """observation of machine `egc` (EGraph/InvMachine.v): (inv (name bool) ...).  Returns None when every (wanted) field is
    true or the history itself failed in the model, else a description of the false fields."""
    if model_obs is None:
        return None
    pm = core.sx_parse(model_obs)
    if not isinstance(pm, list) or not pm or pm[0] != 'inv':
        return 'machine egc produced no observation: ' + model_obs.strip()[:200]
    if len(pm) == 2 and pm[1] == 'history-error':
        return None
    got = {f[0]: f[1] for f in pm[1:] if isinstance(f, list) and len(f) == 2}
    names = wanted if wanted is not None else list(got)
    bad = [n for n in names if got.get(n) != 'true']
    return ('false in the model: ' + ', '.join(bad)) if bad else None


EGC_STREAM = {'name': 'invariant', 'component': 'egs', 'config': 'default', 'quick': 150, 'thorough': 3000, 'gen_extra': []}


def is_lazy_case(pc):
    """the case carries the (lazy) marker: nothing is observed between its operations (whatever stream it runs in, e.g. from the corpus)"""
    return isinstance(pc, list) and any(isinstance(x, list) and len(x) == 1 and x[0] == 'lazy' for x in pc)
