#!/bin/sh
# extract the model and build the driver (ocamlfind ocamlopt; no dune needed)
set -e
cd /verif/ocaml
coqc -Q ../coq/theories SE ../coq/extraction/Extract.v >/dev/null 2>extract.err || { cat extract.err; exit 1; }
rm -f extract.err
ocamlfind ocamlopt -package unix -linkpkg -O3 -w -a model.mli model.ml driver.ml -o driver 2>/dev/null || ocamlfind ocamlopt -package unix -linkpkg -w -a model.mli model.ml driver.ml -o driver
