(* driver.ml — reads one s-expression case per line on stdin, runs the extracted
   model's [dispatch], prints one s-expression observation per line.
   Hand-written glue: the s-expression reader/printer and the conversions between
   OCaml ints/strings and the extracted N / string types.  Nothing else. *)
open Model

let rec pos_of_int (i : int) : positive =
  if i = 1 then XH
  else if i land 1 = 0 then XO (pos_of_int (i lsr 1))
  else XI (pos_of_int (i lsr 1))
let n_of_int (i : int) : n = if i = 0 then N0 else Npos (pos_of_int i)
let rec int_of_pos (p : positive) : int =
  match p with XH -> 1 | XO q -> 2 * int_of_pos q | XI q -> 2 * int_of_pos q + 1
let int_of_n (x : n) : int = match x with N0 -> 0 | Npos p -> int_of_pos p

let ascii_of_char (c : char) : ascii =
  let k = Char.code c in
  let b i = (k lsr i) land 1 = 1 in
  Ascii (b 0, b 1, b 2, b 3, b 4, b 5, b 6, b 7)
let char_of_ascii (a : ascii) : char =
  match a with
  | Ascii (b0, b1, b2, b3, b4, b5, b6, b7) ->
    let v b i = if b then 1 lsl i else 0 in
    Char.chr (v b0 0 + v b1 1 + v b2 2 + v b3 3 + v b4 4 + v b5 5 + v b6 6 + v b7 7)
let cstring_of (s : Stdlib.String.t) : Model.string =
  let r = ref EmptyString in
  for i = Stdlib.String.length s - 1 downto 0 do
    r := String (ascii_of_char s.[i], !r)
  done;
  !r
let ostring_of (s : Model.string) : Stdlib.String.t =
  let b = Buffer.create 16 in
  let rec go s = match s with EmptyString -> () | String (a, t) -> Buffer.add_char b (char_of_ascii a); go t in
  go s; Buffer.contents b

(* reader *)
exception Parse_error of Stdlib.String.t
let parse_line (s : Stdlib.String.t) : sexp =
  let len = Stdlib.String.length s in
  let pos = ref 0 in
  let skip () = while !pos < len && (s.[!pos] = ' ' || s.[!pos] = '\t' || s.[!pos] = '\r') do incr pos done in
  let rec item () : sexp =
    skip ();
    if !pos >= len then raise (Parse_error "eof");
    if s.[!pos] = '(' then begin
      incr pos;
      let acc = ref [] in
      let continue = ref true in
      while !continue do
        skip ();
        if !pos >= len then raise (Parse_error "unclosed");
        if s.[!pos] = ')' then (incr pos; continue := false)
        else acc := item () :: !acc
      done;
      Lst (List.rev !acc)
    end else begin
      let st = !pos in
      while !pos < len && s.[!pos] <> ' ' && s.[!pos] <> '(' && s.[!pos] <> ')' && s.[!pos] <> '\t' do incr pos done;
      let tok = Stdlib.String.sub s st (!pos - st) in
      if tok = "" then raise (Parse_error "empty token");
      let is_num = ref true in
      Stdlib.String.iter (fun c -> if c < '0' || c > '9' then is_num := false) tok;
      if !is_num then Num (n_of_int (int_of_string tok)) else Sym (cstring_of tok)
    end in
  item ()

let rec print_sexp (b : Buffer.t) (e : sexp) : unit =
  match e with
  | Num x -> Buffer.add_string b (string_of_int (int_of_n x))
  | Sym s -> Buffer.add_string b (ostring_of s)
  | Lst l ->
    Buffer.add_char b '(';
    List.iteri (fun i x -> if i > 0 then Buffer.add_char b ' '; print_sexp b x) l;
    Buffer.add_char b ')'

(* per-case time limit for the model (seconds; VERIF_MODEL_TIMEOUT, default 60): the list-based model can take
   very long on the few cases on which the implementation itself needs many seconds; such a case is answered with
   (model-timeout) and the flow evaluates it with the implementation-side predicates only *)
exception Model_timeout
let limit = try int_of_string (Sys.getenv "VERIF_MODEL_TIMEOUT") with _ -> 60

let () =
  Sys.set_signal Sys.sigalrm (Sys.Signal_handle (fun _ -> raise Model_timeout));
  let b = Buffer.create 65536 in
  (try
     while true do
       let line = input_line stdin in
       if Stdlib.String.length line > 0 then begin
         Buffer.clear b;
         (try
            ignore (Unix.alarm limit);
            (try print_sexp b (dispatch (parse_line line))
             with Parse_error m -> Buffer.add_string b ("(driver-parse-error " ^ m ^ ")")
                | Stack_overflow -> Buffer.add_string b "(driver-stack-overflow)");
            ignore (Unix.alarm 0)
          with Model_timeout -> (ignore (Unix.alarm 0); Buffer.clear b; Buffer.add_string b "(model-timeout)"));
         print_string (Buffer.contents b); print_newline ()
       end
     done
   with End_of_file -> ())
