#!/bin/sh
# compare_eg14.sh [--unsound] [--an K] [COUNT] [SEED...]
# e-class analysis correspondence: for every seed generate COUNT `eg14` cases (analysis K = case index mod 3),
# run the implementation (harness) and the extracted model (ocaml/driver), and compare the `(steps ...)` part
# of the implementation's observation with the model's line.  The implementation-only `(fix ...)` and
# `(best ...)` flags are tallied (anything but `ok` / `na` is a finding about /repo, not a mismatch).
# A history that ends in a panic ends in `(err kind location)` on the implementation side and in `(err site)` on
# the model side: both are compared as `(err)` (same step, same observations before it).
# --an K: all cases with analysis K (3, 4: the CapDepth probes, not in the default mix); --unsound: also unions of
# terms with different constant values.
ROOT=/verif
H=$ROOT/harness/target/release/verif-harness
D=$ROOT/ocaml/driver
EXTRA=""
if [ "$1" = "--unsound" ]; then EXTRA="--unsound"; shift; fi
if [ "$1" = "--an" ]; then EXTRA="$EXTRA --an $2"; shift; shift; fi
COUNT=${1:-1000}
[ $# -gt 0 ] && shift
SEEDS="${*:-1 2 3}"
OUT=$ROOT/tmp/eg14
mkdir -p $OUT
TOTAL_MM=0
for seed in $SEEDS; do
  W=$OUT/seed$seed; mkdir -p $W
  $H eg14 gen $EXTRA --seed $seed --count $COUNT --out $W 2>/dev/null
  mv $W/cases.txt $W/gen.txt
  timeout 3000 $H eg14 run $W/gen.txt --out $W 2>/dev/null
  timeout 3000 $D < $W/cases.txt > $W/model.txt 2>$W/model.err
  python3 - $W $seed <<'EOF'
import sys, collections, re
w, seed = sys.argv[1], sys.argv[2]
cases = open(w + '/cases.txt').read().splitlines()
impl = open(w + '/impl.txt').read().splitlines()
model = open(w + '/model.txt').read().splitlines()
def part(l, head):
    i = l.find('(' + head)
    if i < 0: return None
    d = 0
    for j in range(i, len(l)):
        if l[j] == '(': d += 1
        elif l[j] == ')':
            d -= 1
            if d == 0: return l[i:j + 1]
def items(p):
    # top-level items of a list text, without the head symbol
    out, d, cur = [], 0, ''
    for ch in p[1:-1]:
        if ch == '(': d += 1
        if ch == ')': d -= 1
        if ch == ' ' and d == 0:
            if cur: out.append(cur); cur = ''
        else: cur += ch
    if cur: out.append(cur)
    return out[1:]
names = ['MinSize', 'ConstFold', 'Depth', 'CapDepth3', 'CapDepth8']
norm = lambda t: re.sub(r'\(err [^()]*\)', '(err)', t or '')
mm = []; per = collections.Counter(); errs = 0; fixbad = []; bestbad = []; steps_total = 0; nontrivial = collections.Counter()
if len(model) != len(impl): print('seed', seed, 'LINE COUNT DIFFERS', len(impl), len(model))
for k, (c, a, b) in enumerate(zip(cases, impl, model)):
    an = int(part(c, 'an ')[4:-1])
    per[an] += 1
    st = part(a, 'steps')
    if norm(st) != norm(b): mm.append(k)
    if '(err ' in (st or ''): errs += 1
    fx = items(part(a, 'fix'))
    steps_total += len(fx)
    bad_steps = [i for i, f in enumerate(fx) if f != 'ok']
    if bad_steps: fixbad.append((k, an, bad_steps[0], len(fx), fx[bad_steps[0]], len(c)))
    bs = part(a, 'best ')
    if bs not in ('(best ok)', '(best na)'): bestbad.append((k, bs[:200]))
    # did the analysis do anything? (a datum other than the trivial one)
    if an == 1 and '(some ' in st: nontrivial[an] += 1
    if an != 1 and any(x not in ('1',) for it in [part(st[st.rfind('(data'):], 'data')] if it for x in items(it)): nontrivial[an] += 1
print('seed %s: %d cases (%s), %d steps; MISMATCHES on (steps ..): %d; histories ending in an error value: %d' %
      (seed, len(impl), ', '.join('%s %d' % (names[k], per[k]) for k in sorted(per)), steps_total, len(mm), errs))
print('   cases with a non-trivial final datum: ' + ', '.join('%s %d' % (names[k], nontrivial[k]) for k in sorted(nontrivial)))
for k in mm[:5]:
    print('   mismatch case', k, '\n     impl ', part(impl[k], 'steps')[:400], '\n     model', model[k][:400])
print('   implementation-only: cases with a (fix ..) flag that is not ok: %d; (best ..) not ok: %d' % (len(fixbad), len(bestbad)))
if fixbad:
    fixbad.sort(key=lambda t: t[5])
    for t in fixbad[:5]: print('     fix: case %d (%s) first bad step %d of %d: %s' % (t[0], names[t[1]], t[2], t[3], t[4][:200]))
for t in bestbad[:5]: print('     best: case %d: %s' % t)
open(w + '/summary.txt', 'w').write('%d %d %d\n' % (len(mm), len(fixbad), len(bestbad)))
EOF
  read m f b < $W/summary.txt
  TOTAL_MM=$((TOTAL_MM + m))
done
echo "total mismatches: $TOTAL_MM"
[ $TOTAL_MM -eq 0 ]
