#!/bin/sh
# compare_eg3.sh [SEED] [COUNT] [DIR] [MUTANT]: property C03 (rewriting is sound in the model F_p).
# Generates COUNT eg3 cases (arithmetic terms, rules from FPPOOL, F_p-valid unions), runs the implementation
# (history, K iterations of apply_rewrites, export of the final e-graph) and feeds the export to the extracted
# Coq evaluator (machine `c03`: Sem/FpMachine.v, evaluating with the verified `eval` in the algebra interp_fp p
# for p = 5, 3, 2).  Exit status 0 iff no case is flagged.
#   DIR/gen.txt     generated cases             DIR/cases.txt  the cases as run (cfg flags set)
#   DIR/impl.txt    implementation observations (iterations + export)
#   DIR/export.txt  the lines fed to the driver DIR/model.txt  its verdicts: (c03 ok) | (c03 skipped) | (c03 item...)
#   DIR/flagged.txt numbers (1-based) of the cases whose verdict is neither ok nor skipped
# MUTANT (optional, 0..8): replace one pool rule by an invalid variant (harness/src/eg3.rs: MUTANTS) - the check
# must then report `unverified-rule` for every case using it and `bad` where the rule fired unsoundly.
SEED=${1:-1}; COUNT=${2:-200}; DIR=${3:-/tmp/eg3_$SEED}; MUT=${4:-}
ROOT=$(cd "$(dirname "$0")/.." && pwd)
H=${HARNESS:-$ROOT/harness/target/release/verif-harness}   # HARNESS: another build of the harness (tools/eg3_cond_mutants.sh)
D=$ROOT/ocaml/driver
mkdir -p "$DIR"; rm -f "$DIR/flagged.txt"
if [ -n "$MUT" ]; then $H eg3 gen --seed "$SEED" --count "$COUNT" --out "$DIR" --mutant "$MUT" 2>/dev/null || exit 2
else $H eg3 gen --seed "$SEED" --count "$COUNT" --out "$DIR" 2>/dev/null || exit 2; fi
mv "$DIR/cases.txt" "$DIR/gen.txt"
timeout 3000 $H eg3 run "$DIR/gen.txt" --out "$DIR" 2>/dev/null || exit 2
(ulimit -s unlimited 2>/dev/null; timeout 3000 $D < "$DIR/export.txt" > "$DIR/model.txt" 2>/dev/null) || exit 2
python3 - "$DIR" "$SEED" "$MUT" <<'PY'
import re, sys
d, seed, mut = sys.argv[1], sys.argv[2], sys.argv[3]
cases = open(d + '/cases.txt').read().splitlines()
impl = open(d + '/impl.txt').read().splitlines()
model = open(d + '/model.txt').read().splitlines()
assert len(cases) == len(impl) == len(model), (len(cases), len(impl), len(model))
COND = {9, 14, 15, 20, 22, 23}; SUBST = {11}; REBIND = {12, 18}; COMB = set(range(24, 34))
st = dict(cases=0, changed=0, matched=0, cond=0, subst=0, rebind=0, comb=0, cond_m=0, subst_m=0, rebind_m=0, comb_m=0, unions=0,
          comb_true=0, s1=0, s2=0, s3=0, s1_0=0, s2_0=0, s3_0=0, sany=0,
          stopped=0, err=0, skipped=0, ok=0, bad=0, unverified=0, other=0, redundant=0)
flagged = []
for i, (c, o, m) in enumerate(zip(cases, impl, model)):
    st['cases'] += 1
    rules = [int(x) for x in re.findall(r'\(rule (\d+) ', re.search(r'\(rules(.*?)\) \(iters', c).group(1))]
    its = [[int(x) for x in t.split()] for t in re.findall(r'\(matches([\d ]*)\)', o)]
    fired = set(r for t in its for r, n in zip(rules, t) if n > 0)
    st['changed'] += '(it true' in o
    st['matched'] += bool(fired)
    st['unions'] += '(union ' in c
    for k, S in (('cond', COND), ('subst', SUBST), ('rebind', REBIND), ('comb', COMB)):
        st[k] += bool(S & set(rules)); st[k + '_m'] += bool(S & fired)
    # (guards (g pos matches cond-true d1 d2 d3)...) per iteration: combinator-guarded rules
    gs = [[[int(x) for x in g.split()] for g in re.findall(r'\(g ([\d ]*)\)', t)] for t in re.findall(r'\(guards((?: \(g [\d ]*\))*)\)', o)]
    allg = [g for it in gs for g in it]
    st['comb_true'] += any(g[2] > 0 for g in allg)
    for k, j in (('s1', 3), ('s2', 4), ('s3', 5)):
        st[k] += any(g[j] > 0 for g in allg)
        st[k + '_0'] += bool(gs) and any(g[j] > 0 for g in gs[0])
    st['sany'] += any(g[3] + g[4] + g[5] > 0 for g in allg)
    st['stopped'] += '(stopped)' in o
    r = re.search(r'\(redundant (\d+)\)', o); st['redundant'] += bool(r and int(r.group(1)) > 0)
    st['err'] += '(err ' in o
    if m == '(c03 ok)': st['ok'] += 1
    elif m == '(c03 skipped)': st['skipped'] += 1
    else:
        flagged.append(i + 1)
        if '(bad ' in m: st['bad'] += 1
        if '(unverified-rule' in m: st['unverified'] += 1
        if '(bad ' not in m and '(unverified-rule' not in m: st['other'] += 1
open(d + '/flagged.txt', 'w').write(''.join('%d\n' % x for x in flagged))
print('seed=%s%s cases=%d flagged=%d (bad=%d unverified-rule=%d other=%d) ok=%d skipped=%d' % (
    seed, (' mutant=' + mut) if mut else '', st['cases'], len(flagged), st['bad'], st['unverified'], st['other'], st['ok'], st['skipped']))
print('  cases with a rewrite firing (an iteration changed the e-graph): %d; with at least one match: %d' % (st['changed'], st['matched']))
print('  cases with unions in the history: %d' % st['unions'])
print('  cases using a conditional rule: %d (matched: %d); a substitution rule: %d (matched: %d); a re-binding rule: %d (matched: %d)' % (
    st['cond'], st['cond_m'], st['subst'], st['subst_m'], st['rebind'], st['rebind_m']))
print('  cases using a rule guarded by and/or/not: %d (lhs matched: %d; condition true on some match, i.e. fired: %d)' % (st['comb'], st['comb_m'], st['comb_true']))
print('  cases with a match of such a rule on which a slip of the combinators would change the decision: %d' % st['sany'])
print('    and-as-or: %d (on the start e-graph: %d); or-as-and: %d (%d); not dropped: %d (%d)' % (st['s1'], st['s1_0'], st['s2'], st['s2_0'], st['s3'], st['s3_0']))
print('  cases whose final e-graph has a member with a redundant slot (exercising the redundancy check): %d' % st['redundant'])
print('  cases stopped by the node budget: %d; with a panic of the implementation: %d' % (st['stopped'], st['err']))
sys.exit(1 if flagged else 0)
PY
