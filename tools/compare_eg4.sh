#!/bin/sh
# compare_eg4.sh [SEED] [COUNT] [DIR]  — C04 "every represented instance of a rule's left side fires".
# Generates eg4 cases (planted instances), runs the implementation (harness), runs the extracted model replaying the
# implementation's match order (ocaml/driver), diffs the observation lines and evaluates the property:
#   in scope (no redundant slot before applying, planted lhs instance represented)  =>
#   after ONE apply_rewrites the rhs instance is represented (lookup_rec_expr is Some, add_expr adds no node) and eq.
# Exit status 0 iff no mismatch and no in-scope failure.
#   DIR/gen.txt cases   DIR/cases.txt cases + schedule   DIR/impl.txt DIR/model.txt observations   DIR/extra.txt
#   DIR/mismatch.txt case numbers whose lines differ      DIR/failures.txt case numbers violating C04 in scope
ROOT=${ROOT:-/root/scratch/agR1}
SEED=${1:-1}; COUNT=${2:-200}; DIR=${3:-/tmp/eg4_$SEED}
H=${H:-$ROOT/harness/target/release/verif-harness}
D=${D:-$ROOT/ocaml/driver}
mkdir -p "$DIR"; rm -f "$DIR/mismatch.txt" "$DIR/failures.txt"
$H eg4 gen --seed "$SEED" --count "$COUNT" --out "$DIR" 2>/dev/null || exit 2
mv "$DIR/cases.txt" "$DIR/gen.txt"
timeout 3000 $H eg4 run "$DIR/gen.txt" --out "$DIR" 2>/dev/null || exit 2
timeout 3000 $D < "$DIR/cases.txt" > "$DIR/model.txt" 2>/dev/null || exit 2
python3 - "$DIR" "$SEED" <<'PY'
import re, sys
d, seed = sys.argv[1], sys.argv[2]
impl = open(d + '/impl.txt').read().splitlines()
model = open(d + '/model.txt').read().splitlines()
extra = open(d + '/extra.txt').read().splitlines()
cases = open(d + '/gen.txt').read().splitlines()
mism = [i + 1 for i, (a, b) in enumerate(zip(impl, model)) if a != b]
if len(impl) != len(model): mism.append(0)
skipfail = skipped = notplanted = checked = errs = symc = variant = ctx = symv = fired = 0
fails = []
ok_post = re.compile(r'\(post \(lhs true\) \(rhs true\) \(eq true\) \(nodes (\d+) \1\) \(eqh true\)\)')
for i, (o, e, c) in enumerate(zip(impl, extra, cases)):
    motif = c.split(' corpus ')[0]
    m = re.search(r'\) (plant[a-z+\-]*) \(rules', c)
    motif = m.group(1) if m else ''
    pre = re.search(r'\(pre \(red (true|false)\) \(lhs (true|false)\)\)', o)
    if not pre: errs += 1; fails.append((i + 1, 'error:' + o[:80])); continue
    if pre.group(1) == 'true':
        skipped += 1; skipfail += (not ok_post.search(o)); continue
    if pre.group(2) == 'false': notplanted += 1; continue
    checked += 1
    symc += '(sym true)' in e
    variant += ('variant' in motif or 'sub' in motif); ctx += 'context' in motif; symv += 'sym' in motif
    if ok_post.search(o): fired += 1
    else: fails.append((i + 1, o[o.find('(post'):] if '(post' in o else o[-100:]))
open(d + '/mismatch.txt', 'w').write(''.join('%d\n' % k for k in mism))
open(d + '/failures.txt', 'w').write(''.join('%d %s\n' % f for f in fails))
print('eg4 seed=%s cases=%d model-vs-impl mismatches=%d' % (seed, len(impl), len(mism)))
print('  planted instances checked=%d (rhs represented and equal: %d)  skipped for redundancy=%d (of which the rule would NOT have fired: %d)  instance not represented before=%d  errors=%d' % (checked, fired, skipped, skipfail, notplanted, errs))
print('  of the checked: present only through a variant+union=%d  inside a context=%d  permuted-leaf variant=%d  e-graph with symmetric classes=%d' % (variant, ctx, symv, symc))
print('  C04 failures in scope=%d %s' % (len(fails), fails[:5] if fails else ''))
sys.exit(1 if (mism or fails) else 0)
PY
