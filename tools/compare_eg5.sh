#!/bin/sh
# compare_eg5.sh [SEED] [COUNT] [DIR]  — C05 "reported matches denote terms that are really in the e-graph".
# Generates eg5 cases, runs the implementation (harness: matches + read-only validation of every substitution +
# fingerprint before/after), runs the extracted model (ocaml/driver: its own ematch_all + its own validation), diffs
# the observation lines and evaluates the property flags.  Exit status 0 iff no mismatch and no flag is false.
#   DIR/gen.txt = DIR/cases.txt  cases        DIR/impl.txt  implementation observations (single patterns)
#   DIR/model.txt  model observations         DIR/extra.txt implementation-only: multi-patterns, fingerprint, stats
#   DIR/mismatch.txt  case numbers whose lines differ     DIR/failures.txt  case numbers with a false flag / error
ROOT=${ROOT:-/root/scratch/agR1}
SEED=${1:-1}; COUNT=${2:-200}; DIR=${3:-/tmp/eg5_$SEED}
H=${H:-$ROOT/harness/target/release/verif-harness}
D=${D:-$ROOT/ocaml/driver}
mkdir -p "$DIR"; rm -f "$DIR/mismatch.txt" "$DIR/failures.txt"
$H eg5 gen --seed "$SEED" --count "$COUNT" --out "$DIR" 2>/dev/null || exit 2
mv "$DIR/cases.txt" "$DIR/gen.txt"
timeout 3000 $H eg5 run "$DIR/gen.txt" --out "$DIR" 2>/dev/null || exit 2
# MODELHEAD=eg5n: compare against the model with the candidate repair of multi_ematch (MultiPat.v, norm = true)
sed "s/^(eg5 /(${MODELHEAD:-eg5} /" "$DIR/cases.txt" | timeout 3000 $D > "$DIR/model.txt" 2>/dev/null || exit 2
python3 - "$DIR" "$SEED" <<'PY'
import re, sys
d, seed = sys.argv[1], sys.argv[2]
impl = open(d + '/impl.txt').read().splitlines()
model = open(d + '/model.txt').read().splitlines()
extra = open(d + '/extra.txt').read().splitlines()
mism = [i + 1 for i, (a, b) in enumerate(zip(impl, model)) if a != b]
if len(impl) != len(model): mism.append(0)
npat = nmatch = nmp = nmpmatch = symc = redc = both = 0
fails = {}   # case -> list of flags
def bad(i, what): fails.setdefault(i + 1, []).append(what)
for i, (o, e) in enumerate(zip(impl, extra)):
    if not o.startswith('(obs (res ok)'): bad(i, 'history/' + o[:60])
    for m in re.finditer(r'\(p (\d+) (true|false) (true|false)\)', o):
        npat += 1; nmatch += int(m.group(1))
        if m.group(2) == 'false': bad(i, 'single:(i)vars')
        if m.group(3) == 'false': bad(i, 'single:(ii)inst')
    if '(p (err' in o or '(rules (err' in o: bad(i, 'single:panic')
    for m in re.finditer(r'\(mp (\d+) (true|false) (true|false) (true|false)\)', o):
        nmp += 1; nmpmatch += int(m.group(1))
        if m.group(2) == 'false': bad(i, 'multi:(i)vars')
        if m.group(3) == 'false': bad(i, 'multi:(ii)inst')
        if m.group(4) == 'false': bad(i, 'multi:(iii)eq')
    if '(mp (err' in o: bad(i, 'multi:panic')
    if '(fp false)' in e: bad(i, '(iv)fingerprint')
    s, r = '(sym true)' in e, '(red true)' in e
    symc += s; redc += r; both += (s and r)
open(d + '/mismatch.txt', 'w').write(''.join('%d\n' % k for k in mism))
open(d + '/failures.txt', 'w').write(''.join('%d %s\n' % (k, ' '.join(sorted(set(v)))) for k, v in sorted(fails.items())))
kinds = {}
for v in fails.values():
    for f in set(v): kinds[f] = kinds.get(f, 0) + 1
single_fail = sum(1 for v in fails.values() if any(not f.startswith('multi') for f in v))
multi_fail = sum(1 for v in fails.values() if any(f.startswith('multi') for f in v))
print('eg5 seed=%s cases=%d model-vs-impl mismatches=%d' % (seed, len(impl), len(mism)))
print('  single patterns=%d matches=%d   multi-patterns=%d matches=%d' % (npat, nmatch, nmp, nmpmatch))
print('  cases with symmetric classes=%d  with redundant classes=%d  with both=%d' % (symc, redc, both))
print('  cases failing C05 flags: single-pattern matcher / fingerprint=%d  multi-pattern matcher=%d  %s' % (single_fail, multi_fail, kinds if kinds else ''))
sys.exit(1 if (mism or fails) else 0)
PY
