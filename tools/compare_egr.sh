#!/bin/sh
# compare_egr.sh [SEED] [COUNT] [DIR]: generate egr cases with the scratch harness, run the implementation,
# run the extracted model, diff the observation lines.  Exit status 0 iff there is no mismatch.
#   DIR/gen.txt     generated cases
#   DIR/cases.txt   the same cases as run (cfg flags set, the implementation's schedule appended)
#   DIR/impl.txt    implementation observations      DIR/extra.txt  implementation-only findings
#   DIR/model.txt   model observations replaying the implementation's schedule   -> mismatch.txt (must be empty)
#   DIR/model0.txt  model observations in the model's own order (no schedule)     -> orderdep.txt (informative:
#                   the cases whose observables depend on the iteration order of hash maps)
SEED=${1:-1}; COUNT=${2:-200}; DIR=${3:-/tmp/egr_$SEED}
H=/verif/harness/target/release/verif-harness
D=/verif/ocaml/driver
mkdir -p "$DIR"; rm -f "$DIR/mismatch.txt" "$DIR/orderdep.txt"
$H egr gen --seed "$SEED" --count "$COUNT" --out "$DIR" 2>/dev/null || exit 2
mv "$DIR/cases.txt" "$DIR/gen.txt"
timeout 3000 $H egr run "$DIR/gen.txt" --out "$DIR" 2>/dev/null || exit 2
timeout 3000 $D < "$DIR/cases.txt" > "$DIR/model.txt" 2>/dev/null || exit 2
timeout 3000 $D < "$DIR/gen.txt" > "$DIR/model0.txt" 2>/dev/null || exit 2
cmp_lines() {  # impl model out label
  paste -d '\n' "$1" "$2" | awk -v out="$3" -v label="$4" -v seed="$SEED" '
    NR % 2 == 1 { a = $0; next }
    { n++; if (a != $0) { bad++; print n > out } }
    END { printf "seed=%s cases=%d %s=%d\n", seed, n, label, bad + 0; exit (bad > 0) }'
}
cmp_lines "$DIR/impl.txt" "$DIR/model.txt" "$DIR/mismatch.txt" mismatches
RC=$?
cmp_lines "$DIR/impl.txt" "$DIR/model0.txt" "$DIR/orderdep.txt" "differing-in-the-models-own-order"
# summary of what the cases exercised
echo "  cases with a changing iteration: $(grep -c '(it true' "$DIR/impl.txt")"
echo "  cases ending in a panic: $(grep -c '(err ' "$DIR/impl.txt")"
echo "  cases stopped by the node limit: $(grep -c '(stopped)' "$DIR/impl.txt")"
echo "  cases with implementation-only findings (extra.txt): $(grep -vc '^(extra)$' "$DIR/extra.txt")"
exit $RC
