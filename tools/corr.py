#!/usr/bin/env python3
# tools/corr.py <component> <config> [count] [seed] -- quick manual correspondence run
import sys, os
sys.path.insert(0, '/verif')
from lib import core
comp, cfg = sys.argv[1], sys.argv[2]
count = sys.argv[3] if len(sys.argv) > 3 else '2000'
seed = sys.argv[4] if len(sys.argv) > 4 else '3'
core.build_driver()
b = core.build_harness(cfg)
wd = '/verif/run/t-%s-%s' % (comp, cfg.replace('+', '_')); os.makedirs(wd, exist_ok=True)
core.harness(b, [comp, 'gen', '--seed', seed, '--count', count, '--out', wd] + sys.argv[5:], timeout=300)
core.harness(b, [comp, 'run', wd + '/cases.txt', '--out', wd], timeout=1200)
core.run_model(wd + '/cases.txt', wd + '/model.txt', jobs=8)
rd = lambda f: [l for l in open(wd + '/' + f).read().split('\n') if l]
a = rd('impl.txt'); m = rd('model.txt'); cs = rd('cases.txt')
cn = lambda y: core.canon_err(core.canon_fresh(core.sx_parse(y)))
bad = [(x, y, z) for x, y, z in zip(cs, a, m) if cn(y) != cn(z)]
print(comp, cfg, len(a), len(m), 'mismatches', len(bad))
for x, y, z in bad[:int(os.environ.get('SHOW', '3'))]:
    print('CASE ', x); print('IMPL ', y); print('MODEL', z); print()
