import subprocess, sys, os
H='/verif/harness/target/release/verif-harness'
def load(path, idx):
    out=subprocess.run([H,'eg14','show',path,str(idx)],capture_output=True,text=True).stdout
    ops=[]
    for l in out.splitlines():
        l=l.split('#')[0].strip()
        if l.startswith('add '): ops.append(('add',l[4:].strip()))
        elif l.startswith('union '): a,b=l[6:].split(); ops.append(('union',int(a),int(b)))
    return ops
def text(ops): return '\n'.join(('add '+o[1]) if o[0]=='add' else 'union %d %d'%(o[1],o[2]) for o in ops)+'\n'
def run(ops, an, env):
    open('t.txt','w').write(text(ops))
    c=subprocess.run([H,'eg14','mk','t.txt',str(an)],capture_output=True,text=True).stdout
    open('t.case','w').write(c)
    e=dict(os.environ); e.update(env)
    subprocess.run([H,'eg14','run','t.case','--out','.'],capture_output=True,env=e)
    return open('impl.txt').read()
def remove(ops,i):
    o=ops[i]
    if o[0]=='union': return ops[:i]+ops[i+1:]
    h=sum(1 for x in ops[:i] if x[0]=='add')
    out=[]
    for j,x in enumerate(ops):
        if j==i: continue
        if x[0]=='union':
            if x[1]==h or x[2]==h: continue
            out.append(('union', x[1]-(x[1]>h), x[2]-(x[2]>h)))
        else: out.append(x)
    return out
def minimize(ops, pred):
    changed=True
    while changed:
        changed=False
        i=len(ops)-1
        while i>=0:
            if i<len(ops):
                cand=remove(ops,i)
                if pred(cand): ops=cand; changed=True
            i-=1
    return ops
if __name__=='__main__':
    path,idx,an,what=sys.argv[1],int(sys.argv[2]),int(sys.argv[3]),sys.argv[4]
    env={}
    for kv in sys.argv[5:]: k,v=kv.split('='); env[k]=v
    pred=lambda ops: (what in run(ops,an,env)) and ('(err' not in open('impl.txt').read() or what=='(err')
    ops=load(path,idx)
    assert pred(ops)
    ops=minimize(ops,pred)
    print(text(ops)); print(run(ops,an,env))
