#!/bin/sh
# eg3_cond_mutants.sh [SEED] [COUNT]: teeth of C03 for the condition combinators of src/rewrite/mod.rs.
# Builds the harness against a PRIVATE copy of /repo (ROOT/repo_mut; /repo is never touched) in which one
# combinator is broken, runs tools/compare_eg3.sh with that harness and expects `bad` classes:
#   and-as-or:   and(x, y) evaluates x || y        or-as-and: or(x, y) evaluates x && y
#   not-dropped: not(x) evaluates x
# The private copy and its build output are removed afterwards.
SEED=${1:-1}; COUNT=${2:-1000}
ROOT=$(cd "$(dirname "$0")/.." && pwd)
M=$ROOT/repo_mut; HM=$ROOT/harness_mut
rm -rf "$M" "$HM"; mkdir -p "$M" "$HM"
(cd /repo && tar cf - --exclude=./target .) | (cd "$M" && tar xf -)
cp "$ROOT/harness/Cargo.toml" "$HM/Cargo.toml"; sed -i "s|/repo|$M|g" "$HM/Cargo.toml"
cp /repo/Cargo.lock "$HM/Cargo.lock"; ln -s "$ROOT/harness/src" "$HM/src"
F=$M/src/rewrite/mod.rs
cp "$F" "$M/mod.rs.orig"
for mut in and-as-or or-as-and not-dropped; do
  cp "$M/mod.rs.orig" "$F"
  case $mut in
    and-as-or)   sed -i 's/move |subst, eg| x(subst, eg) && y(subst, eg)/move |subst, eg| x(subst, eg) || y(subst, eg) \/\* MUTANT \*\//' "$F" ;;
    or-as-and)   sed -i 's/move |subst, eg| x(subst, eg) || y(subst, eg)/move |subst, eg| x(subst, eg) \&\& y(subst, eg) \/\* MUTANT \*\//' "$F" ;;
    not-dropped) sed -i 's/move |subst, eg| !x(subst, eg)/move |subst, eg| x(subst, eg) \/\* MUTANT \*\//' "$F" ;;
  esac
  echo "== $mut: $(diff "$M/mod.rs.orig" "$F" | grep -c '^>') line(s) changed"; diff "$M/mod.rs.orig" "$F" | grep '^[<>]'
  (cd "$HM" && CARGO_NET_OFFLINE=true RUSTFLAGS="--cfg slotted_egraphs_verif -Awarnings" cargo build --release --offline 2>&1 | grep -E "^error" -A14 | head -40)
  HARNESS=$HM/target/release/verif-harness "$ROOT/tools/compare_eg3.sh" "$SEED" "$COUNT" "/tmp/eg3_mut_$mut"
  echo "   exit status $?  (flagged cases: /tmp/eg3_mut_$mut/flagged.txt)"
done
rm -rf "$M" "$HM"
