#!/usr/bin/env python3
# tools/egstats.py <config> [count] [seed] [--justified] : run random histories + corpus/src, print failure statistics
import sys,os; sys.path.insert(0,'/verif')
from lib import core
from collections import Counter
cfg=sys.argv[1]; count=sys.argv[2] if len(sys.argv)>2 else '3000'; seed=sys.argv[3] if len(sys.argv)>3 else '1'
b=core.build_harness(cfg)
wd='/verif/run/t-egs-'+cfg.replace('+','_'); os.makedirs(wd,exist_ok=True)
lines=[]
for f in sorted(os.listdir('/verif/corpus/src')):
    rc,o,e=core.sh([b,'eg','mk','/verif/corpus/src/'+f])
    lines.append([l for l in o.split('\n') if l.startswith('(eg')][0])
open(wd+'/corp.txt','w').write('\n'.join(lines)+'\n')
core.harness(b,['eg','run',wd+'/corp.txt','--out',wd])
for f,l in zip(sorted(os.listdir('/verif/corpus/src')),open(wd+'/impl.txt')): print(f,l.strip()[:200])
core.harness(b,['eg','gen','--seed',seed,'--count',count,'--out',wd]+sys.argv[4:],timeout=300)
core.harness(b,['eg','run',wd+'/cases.txt','--out',wd],timeout=3000)
c=Counter(); ex={}
for cl,l in zip(open(wd+'/cases.txt'),open(wd+'/impl.txt')):
    o=core.sx_parse(l.strip()); res=o[1]
    if res[1]=='err': k='err '+res[3]+' '+res[4]
    else:
        k='ok'
        for e in o[2:]:
            if e[0]=='eqm' and e[1]=='err': k='eqm-err '+e[3]
            if e[0]=='check' and e[1]!='ok': k='check-fail '+e[1][2]
    c[k]+=1
    if k!='ok' and k not in ex: ex[k]=cl.strip()
for k,v in c.most_common(): print(v,k)
for k,v in ex.items(): print(k, '\n   ', v[:400])
