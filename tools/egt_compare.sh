#!/bin/sh
# tools/egt_compare.sh [COUNT] [SEED...] -- correspondence run for the extraction component `egt`:
# generate COUNT histories per seed, run them on the implementation (harness) and on the extracted
# model (ocaml/driver), compare the observation lines textually.
# Prints per seed: cases, mismatches, lines with a `false` flag, lines with an error.
ROOT=/verif
H=$ROOT/harness/target/release/verif-harness
D=$ROOT/ocaml/driver
COUNT=${1:-1500}; [ $# -gt 0 ] && shift
SEEDS=${*:-"1 2 3"}
total=0
for seed in $SEEDS; do
  wd=$ROOT/run/egt-s$seed; mkdir -p $wd
  $H egt gen --seed $seed --count $COUNT --out $wd 2>/dev/null
  $H egt run $wd/cases.txt --out $wd 2>/dev/null
  timeout 3000 $D < $wd/cases.txt > $wd/model.txt
  python3 - $wd $seed <<'PY'
import sys
wd, seed = sys.argv[1], sys.argv[2]
rd = lambda f: [l for l in open(wd + '/' + f).read().split('\n') if l]
cs, a, m = rd('cases.txt'), rd('impl.txt'), rd('model.txt')
bad = [(x, y, z) for x, y, z in zip(cs, a, m) if y != z]
nfalse = sum(1 for y in a if ' false' in y)
nerr = sum(1 for y in a if '(err ' in y or 'res err' in y)
unions = sum(1 for x in cs if '(union ' in x)
print('egt seed %s: cases %d impl %d model %d mismatches %d impl-false-flags %d impl-errors %d (cases with unions %d)'
      % (seed, len(cs), len(a), len(m), len(bad) + abs(len(a) - len(m)), nfalse, nerr, unions))
with open(wd + '/mismatches.txt', 'w') as f:
    for x, y, z in bad: f.write('CASE  %s\nIMPL  %s\nMODEL %s\n\n' % (x, y, z))
for x, y, z in bad[:2]:
    print('CASE ', x[:1500]); print('IMPL ', y[:1500]); print('MODEL', z[:1500]); print()
sys.exit(1 if bad or len(a) != len(m) else 0)
PY
  [ $? -ne 0 ] && total=1
done
exit $total
