#!/usr/bin/env python3
import sys,os,time; sys.path.insert(0,'/verif')
from lib import core
from collections import Counter
cfg=sys.argv[1] if len(sys.argv)>1 else 'explanations'; count=sys.argv[2] if len(sys.argv)>2 else '400'; seed=sys.argv[3] if len(sys.argv)>3 else '1'
b=core.build_harness(cfg); core.build_driver()
wd='/verif/run/t-egx'; os.makedirs(wd,exist_ok=True)
core.harness(b,['egx','gen','--seed',seed,'--count',count,'--out',wd],timeout=120)
core.harness(b,['egx','run',wd+'/cases.txt','--out',wd],timeout=1800)
cs=[l.strip() for l in open(wd+'/cases.txt')]; im=[l.strip() for l in open(wd+'/impl.txt')]
out=[]; c=Counter(); exs={}
for c_,i in zip(cs,im):
    pc=core.sx_parse(c_); pi=core.sx_parse(i)
    if pi[1][1]=='err': c['hist-err '+pi[1][3]+' '+pi[1][4]]+=1; exs.setdefault('hist-err '+pi[1][4],c_)
    ex=[x for x in pi[1:] if x[0]=='expl']
    if not ex: out.append('(chk skip)'); continue
    for e in ex[0][1:]:
        if e[2][0]=='err': c['explain-err '+e[2][1]+' '+e[2][2]]+=1; exs.setdefault('explain-err '+e[2][2],(c_,e[0],e[1]))
    out.append(core.sx_show(['chk',pc[2],pc[3],ex[0]]))
open(wd+'/chk.txt','w').write('\n'.join(out)+'\n')
core.run_model(wd+'/chk.txt',wd+'/chk_out.txt',jobs=8)
for k,l in enumerate(open(wd+'/chk_out.txt')):
    o=core.sx_parse(l.strip())
    if not isinstance(o,list): c[str(o)]+=1; continue
    for e in o[1:]:
        key=core.sx_show(e[2]) if isinstance(e,list) else str(e)
        if key.startswith('(rejected'): key='rejected'; exs.setdefault('rejected',(k,e))
        c[key]+=1
print(c)
for k,v in exs.items(): print(k, str(v)[:600])
