#!/usr/bin/env python3
# tools/manifest_add.py <Cxx> <category> <level_text> <level_note> <technique> <design_ref>
import json, sys
pid, cat, text, note, tech, ref = sys.argv[1:7]
m = json.load(open('/verif/MANIFEST.json'))
m['checks'] = [c for c in m['checks'] if c['property_id'] != pid]
m['checks'].append({"property_id": pid, "quick_cmd": "bin/check %s --tier quick" % pid, "thorough_cmd": "bin/check %s --tier thorough" % pid,
  "evidence_file": "evidence/%s.json" % pid, "replay_cmd_template": "bin/check %s --replay {path}" % pid, "engine": "coq-model+correspondence",
  "level_claimed": {"category": cat, "text": text, "design_ref": ref}, "level_note": note, "technique": tech})
m['checks'].sort(key=lambda c: c['property_id'])
m['not_applicable'] = [x for x in m['not_applicable'] if x['property_id'] != pid]
m['engines'][0]['serves_properties'] = sorted(c['property_id'] for c in m['checks'])
json.dump(m, open('/verif/MANIFEST.json', 'w'), indent=1)
