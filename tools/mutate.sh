#!/bin/sh
# mutate.sh <name>: apply one mutation (or the candidate fix) to a PRIVATE copy of /repo (repo_mut), build a copy of the
# harness against it (harness_mut) and run both compare scripts with it.  /repo is never touched.
ROOT=/root/scratch/agR1
N=$1; SEEDN=${2:-1000}
mkdir -p $ROOT/repo_mut $ROOT/harness_mut
rsync -a --delete --exclude target --exclude .git /repo/ $ROOT/repo_mut/
rsync -a --exclude target $ROOT/harness/ $ROOT/harness_mut/
sed -i 's#path = "/repo"#path = "'$ROOT'/repo_mut"#; s#path = "/repo/slotted-egraphs-derive"#path = "'$ROOT'/repo_mut/slotted-egraphs-derive"#' $ROOT/harness_mut/Cargo.toml
E=$ROOT/repo_mut/src/rewrite/ematch.rs; M=$ROOT/repo_mut/src/rewrite/multipat.rs
case $N in
  none) ;;
  novariants) # M1: ematch_node looks at the e-node as stored only, not at its group-compatible variants
    sed -i "s|'nodeloop: for n2 in eg.get_group_compatible_weak_variants(&nn) {|'nodeloop: for n2 in std::iter::once(nn.clone()) {|" $E ;;
  noeq) # M2: a repeated pattern variable is not compared with its first binding
    sed -i 's|if !eg.eq(&i, j) {|if false \&\& !eg.eq(\&i, j) {|' $E ;;
  syneq) # M4: a repeated pattern variable must be bound to the syntactically same applied id
    sed -i 's|if !eg.eq(&i, j) {|if i != *j {|' $E ;;
  nobij) # M3: the partial slot map need not stay injective
    sed -i 's|    map.is_bijection()|    true|' $E ;;
  fixmulti) # candidate repair of the multi_ematch finding: bind children in normalised form
    sed -i 's|        st.subst.insert(pv.clone(), x);|        let x = state_appid_find(x, \&st); st.subst.insert(pv.clone(), x);|' $M ;;
  *) echo unknown; exit 2 ;;
esac
(cd $ROOT/repo_mut && diff -r /repo/src src)
cd $ROOT/harness_mut && cp /repo/Cargo.lock . && CARGO_NET_OFFLINE=true RUSTFLAGS="--cfg slotted_egraphs_verif -Awarnings" timeout 900 cargo build --release --offline 2>&1 | grep -E "^error" -A14 | head -40
export H=$ROOT/harness_mut/target/release/verif-harness
$ROOT/tools/compare_eg5.sh 1 $SEEDN /tmp/r1/mut5_$N
$ROOT/tools/compare_eg4.sh 1 $SEEDN /tmp/r1/mut4_$N
[ "$CLEAN" = 1 ] && rm -rf $ROOT/repo_mut $ROOT/harness_mut
exit 0
